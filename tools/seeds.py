#!/usr/bin/env python3
"""Seeded-change tooling.

  seeds.py confirm <srcdir> <id>   confirm a sub-agent's change in a scratch worktree (tests pass, demo fails with /
                                   passes without) and store it as /verif/seeded/<id>/
  seeds.py run <id> [tier]         apply seeded/<id>/patch.diff to /repo, run the property's check, revert
  seeds.py matrix [ids...]         run every seeded change, print kill matrix (written to seeded/MATRIX.json)
"""
import sys, os, json, subprocess, shutil, re, time

HERE = os.path.dirname(os.path.dirname(os.path.abspath(__file__)))
SEEDED = os.path.join(HERE, 'seeded')


def sh(cmd, **kw):
    return subprocess.run(cmd, shell=True, stdout=subprocess.PIPE, stderr=subprocess.STDOUT, text=True, **kw)


def demo_cmd(demo, wt, exe):
    inc = '-I %s/include -I %s/src/cpp' % (wt, wt)
    libs = '%s/_build/librtosc-cpp.a %s/_build/librtosc.a' % (wt, wt)
    if demo.endswith('.c'):
        return 'gcc -std=gnu99 -O1 -g %s %s %s -o %s -lm -lpthread -ldl -lstdc++' % (inc, demo, libs, exe)
    return 'g++ -std=gnu++17 -O1 -g %s %s %s -o %s -lm -lpthread -ldl' % (inc, demo, libs, exe)


def build_and_test(wt):
    r = sh('cmake -G Ninja -S %s -B %s/_build -DCMAKE_BUILD_TYPE=RelWithDebInfo >/dev/null && cmake --build %s/_build -j8 2>&1 | tail -3' % (wt, wt, wt))
    if r.returncode:
        return False, r.stdout
    r = sh('ctest --test-dir %s/_build -j8 --timeout 900 2>&1 | tail -6' % wt)
    ok = '100% tests passed' in r.stdout
    return ok, r.stdout


def confirm(srcdir, sid):
    wt = '/tmp/confirm_%s' % sid
    sh('git -C /repo worktree remove --force %s' % wt)
    base = sh('cat /root/.vp/repo_root_sha').stdout.strip() or 'HEAD'
    # seeds are made against the pinned snapshot; apply them on top of the current HEAD (with fix: commits)
    r = sh('git -C /repo worktree add -q --detach %s HEAD' % wt)
    res = dict(id=sid)
    try:
        patch = os.path.join(srcdir, 'patch.diff')
        demo = [f for f in os.listdir(srcdir) if f.startswith('demo.')][0]
        demo = os.path.join(srcdir, demo)
        r = sh('git -C %s apply %s' % (wt, patch))
        res['applies'] = r.returncode == 0
        if not res['applies']:
            res['error'] = r.stdout
            return res
        ok, out = build_and_test(wt)
        res['tests_pass_with_patch'] = ok
        if not ok:
            res['error'] = out[-800:]
        exe = wt + '/_demo'
        r = sh(demo_cmd(demo, wt, exe))
        if r.returncode:
            res['error'] = 'demo build: ' + r.stdout[-800:]
            return res
        r = sh('timeout 120 ' + exe)
        res['demo_rc_with_patch'] = r.returncode
        res['demo_out_with_patch'] = r.stdout[-600:]
        sh('git -C %s checkout -- .' % wt)
        r = sh('cmake --build %s/_build -j8 2>&1 | tail -2' % wt)
        r = sh(demo_cmd(demo, wt, exe))
        r = sh('timeout 120 ' + exe)
        res['demo_rc_without_patch'] = r.returncode
        res['demo_out_without_patch'] = r.stdout[-300:]
        res['confirmed'] = bool(res.get('tests_pass_with_patch') and res['demo_rc_with_patch'] != 0 and res['demo_rc_without_patch'] == 0)
    finally:
        sh('git -C /repo worktree remove --force %s' % wt)
        shutil.rmtree(wt, ignore_errors=True)
    if res.get('confirmed'):
        d = os.path.join(SEEDED, sid)
        os.makedirs(d, exist_ok=True)
        shutil.copy(patch, os.path.join(d, 'patch.diff'))
        shutil.copy(demo, os.path.join(d, os.path.basename(demo)))
        meta = {}
        try:
            meta = json.load(open(os.path.join(srcdir, 'meta.json')))
        except Exception:
            pass
        meta['id'] = sid
        meta['confirmed_by'] = 'tools/seeds.py confirm: scratch worktree of /repo HEAD; patch applied; cmake RelWithDebInfo build; ctest 31/31 passed; demo exit %d with patch, 0 without' % res['demo_rc_with_patch']
        meta['demo_output_with_patch'] = res['demo_out_with_patch']
        json.dump(meta, open(os.path.join(d, 'meta.json'), 'w'), indent=1)
    return res


def run_seed(sid, tier='quick', seed=None):
    d = os.path.join(SEEDED, sid)
    meta = json.load(open(os.path.join(d, 'meta.json')))
    prop = meta['property']
    st = sh('git -C /repo status --porcelain --untracked-files=no').stdout.strip()
    if st:
        print('refusing: /repo has local modifications:\n' + st)
        sys.exit(2)
    r = sh('git -C /repo apply %s/patch.diff' % d)
    if r.returncode:
        return dict(id=sid, property=prop, error='patch does not apply: ' + r.stdout)
    try:
        env = dict(os.environ)
        if seed is not None:
            env['VERIF_SEED'] = str(seed)
        t0 = time.time()
        r = sh('python3 %s/verif.py check %s --tier %s' % (HERE, prop, tier), env=env, cwd=HERE)
        out = r.stdout
        viol = sorted(set(re.findall(r'violation (\S+?)\|', out)))
        return dict(id=sid, property=prop, tier=tier, rc=r.returncode, detected=r.returncode == 1,
                    checks_fired=viol[:12], wall_s=round(time.time() - t0, 1), tail=out[-1500:])
    finally:
        sh('git -C /repo checkout -- .')


def main():
    a = sys.argv[1:]
    if a[0] == 'confirm':
        res = confirm(a[1], a[2])
        print(json.dumps(res, indent=1))
        return 0 if res.get('confirmed') else 1
    if a[0] == 'run':
        res = run_seed(a[1], a[2] if len(a) > 2 else 'quick')
        print(json.dumps(res, indent=1))
        return 0
    if a[0] == 'matrix':
        ids = a[1:] or sorted(os.listdir(SEEDED))
        mpath = os.path.join(SEEDED, 'MATRIX.json')
        mat = json.load(open(mpath)) if os.path.exists(mpath) else {}
        for sid in ids:
            if not os.path.isdir(os.path.join(SEEDED, sid)):
                continue
            res = run_seed(sid)
            res.pop('tail', None)
            mat[sid] = res
            print(sid, 'DETECTED' if res.get('detected') else 'MISSED rc=%s' % res.get('rc'), res.get('checks_fired'), res.get('wall_s'))
            json.dump(mat, open(mpath, 'w'), indent=1, sort_keys=True)
        return 0


if __name__ == '__main__':
    sys.exit(main())
