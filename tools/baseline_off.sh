#!/bin/bash
# Repository's own build + test suite with the hook guard OFF (no -DRTOSC_VERIF_HOOKS).
set -e
B=$(mktemp -d /var/tmp/rtosc_baseline.XXXXXX)
trap 'rm -rf "$B"' EXIT
cmake -G Ninja -S /repo -B "$B" -DCMAKE_BUILD_TYPE=RelWithDebInfo >/dev/null
cmake --build "$B" -j16 2>&1 | tail -2
ctest --test-dir "$B" -j8 --timeout 900 2>&1 | tail -8
