#!/usr/bin/env python3
"""Regenerate MANIFEST.json from props.py (keeps the two in sync)."""
import json, os, sys, subprocess
HERE = os.path.dirname(os.path.dirname(os.path.abspath(__file__)))
sys.path.insert(0, HERE)
from props import PROPS, NOT_APPLICABLE  # noqa

ALL = ['C%02d' % i for i in range(1, 21)]
hook_commits = []
try:
    out = subprocess.run(['git', '-C', '/repo', 'log', '--format=%h %s'], stdout=subprocess.PIPE, text=True).stdout
    hook_commits = [l.split()[0] for l in out.splitlines() if l.split(' ', 1)[1].startswith('hook:')]
except Exception:
    pass

m = {
    "version": 1,
    "setup_cmd": "python3 verif.py setup",
    "hooks": {
        "guard": "RTOSC_VERIF_HOOKS",
        "enable": "verif.py compiles /repo's working-tree sources itself (no CMake) with -DRTOSC_VERIF_HOOKS -DNDEBUG plus the sanitizer flags of the build variant (asan/tsan/plain)",
        "baseline_off_cmd": "bash tools/baseline_off.sh",
        "source_commits": hook_commits,
        "add_only": True,
    },
    "engines": [
        {"name": "verif.py", "path": "verif.py", "serves_properties": sorted(PROPS.keys()),
         "kind_free_text": "driver: rebuilds the library from /repo's working tree per sanitizer variant, shards generated cases over up to 16 harness processes, contains crashes (beacon + single-case re-run), matches failures against known_findings.json, writes evidence and replay files"},
        {"name": "harness", "path": "harness/", "serves_properties": sorted(PROPS.keys()),
         "kind_free_text": "one C++17 monitor executable per property: generated workloads + computed oracles (reference models, laws), AddressSanitizer/UBSan/ThreadSanitizer builds, guard-page buffers, allocator/mutex interposition"},
    ],
    "checks": [],
    "not_applicable": [],
    "notes": "All checks are runtime monitors over executions of the real library code compiled from /repo; see DESIGN.md. replay files are written to /verif/replay/.",
}
for pid in ALL:
    if pid in PROPS:
        p = PROPS[pid]
        m["checks"].append({
            "property_id": pid,
            "quick_cmd": "python3 verif.py check %s --tier quick" % pid,
            "thorough_cmd": "python3 verif.py check %s --tier thorough" % pid,
            "evidence_file": "evidence/%s.json" % pid,
            "replay_cmd_template": "python3 verif.py replay {path}",
            "engine": "verif.py",
            "level_claimed": {"category": "exploration", "text": p['level_text'], "design_ref": "DESIGN.md section 5, " + pid},
            "level_note": p['level_note'],
            "technique": p['technique'],
        })
    else:
        m["not_applicable"].append({"property_id": pid, "reason": NOT_APPLICABLE.get(pid, "check not built yet (work in progress); no claim is made for this property")})
json.dump(m, open(os.path.join(HERE, 'MANIFEST.json'), 'w'), indent=1)
try:
    import jsonschema
    jsonschema.validate(m, json.load(open('/root/.vp/MANIFEST.schema.json')))
    print('MANIFEST.json valid; checks:', [c['property_id'] for c in m['checks']])
except ImportError:
    print('jsonschema not available; not validated')
