# Property table for verif.py: which harness stages decide each property and
# with which budgets (case counts, never seconds).
NOT_APPLICABLE = {}

def MEMCHECK(harness, quick, thorough, mode='', **kw):
    """The same harness on the uninstrumented -O2 build under valgrind memcheck: reads of
    uninitialised memory that decide a branch or reach an address (ASan cannot see those)."""
    d = dict(harness=harness, variant='plain', mode=mode, quick=quick, thorough=thorough, min_per_shard=20,
             wrapper=['valgrind', '-q', '--error-exitcode=99', '--exit-on-first-error=yes', '--undef-value-errors=yes',
                      '--track-origins=no', '--num-callers=24'],
             args=['--beacon'], case_timeout=300, memcheck=True)
    d.update(kw)
    return d


PROPS = {
    'C01': dict(
        level_text='Runtime monitoring against a reference model: every generated (address, type string, values) case is encoded by all four constructors (rtosc_amessage, rtosc_vmessage through a hand-built va_list, true-varargs rtosc_message call sites, rtosc_avmessage incl. compressed ranges) and compared bytewise with an independent OSC 1.0 encoder; the bytes are then read back from an exact-size heap copy through every accessor and compared bit-for-bit. Held on the cases explored (type strings exhaustive to length 2/3, random beyond), not a proof. Round 2-5 additions: messages read from addresses 1..3 bytes off alignment, encoded into unaligned destinations, measured as two-segment rings at every split, re-read from one reused buffer in odd orders (history independence), addresses that spell almost the bundle marker, 30..70 value-carrying arguments, repetitions of value-less tags in arg-val lists.',
        level_note='Trusts the reference codec harness/refosc.h (written from the OSC 1.0 text), the x86-64 SysV va_list layout, gcc AddressSanitizer red zones for out-of-bounds detection. Float signalling NaNs are not passed through varargs paths (C promotion quiets them).',
        technique='reference-model differential monitor under AddressSanitizer/UBSan',
        stages=[dict(harness='c01', variant='asan', quick=24000, thorough=1500000,
                     need=['encode.amessage', 'encode.vmessage', 'encode.message', 'encode.avmessage',
                           'decode.iter_values', 'ranges.compressed_runs', 'msgs.with_brackets', 'msgs.null_blob'])],
        rule='case = (address, type string, values); exhaustive over type strings of 17 symbols up to length 2 (quick) / 3 '
             '(thorough) x 4 address alignments x 3 value profiles, then random type strings up to length 40; every 8th random '
             'case is an arg-val list with compressed runs. distinct = hash(type string, first 64 reference bytes); '
             'non-trivial = every case (each is encoded by 4 constructors and decoded by 5 accessors).',
        exhaustive=dict(quick=False, thorough=False),
        assumptions=['reference codec refosc.h written from the OSC 1.0 text is correct',
                     'x86-64 SysV va_list layout for the hand-built va_list path',
                     'float NaNs passed through varargs are quiet (C default promotion quiets signalling NaNs)']),
    'C02': dict(
        level_text='Runtime monitoring with guard pages: every generated message and bundle is built into a buffer of every capacity from 0 to needed+8 that ends exactly at a PROT_NONE page (canary bytes in front), through rtosc_amessage, rtosc_vmessage, rtosc_message, rtosc_avmessage and rtosc_bundle; the oracle demands return 0 and an all-zero buffer when the reference size exceeds the capacity, the exact reference bytes and size otherwise, and NULL-buffer size queries equal to the reference size. ThreadLink::write/writeArray (MaxMsg 8..64, messages far below to far above) and RtData::reply/broadcast around their 8192-byte stack buffers run under AddressSanitizer. Held on the capacities x messages explored.',
        level_note='Trusts the reference codec for sizes/bytes, the MMU for over-runs and a 16-byte canary for under-runs; AddressSanitizer red zones for the library-internal heap/stack buffers. Bytes between needed and len after a successful build may be untouched or zero.',
        technique='guard-page buffer + capacity sweep monitor under AddressSanitizer, reference-size oracle',
        stages=[dict(harness='c02', variant='asan', quick=3000, thorough=100000,
                     need=['calls.amessage', 'calls.vmessage', 'calls.message', 'calls.avmessage', 'calls.bundle',
                           'calls.threadlink_write', 'calls.threadlink_writeArray', 'calls.rtdata_reply',
                           'calls.rtdata_broadcast', 'capacity.too_small', 'capacity.exact', 'capacity.larger',
                           'threadlink.oversize', 'threadlink.fits', 'rtdata.fits', 'rtdata.oversize'])],
        rule='case = one message (6 of 10), bundle of 0..8 elements nested to depth 3 (2 of 10), ThreadLink write history (1 of 10) or '
             'RtData reply/broadcast near 8192 bytes (1 of 10); messages and bundles are crossed with EVERY capacity 0..needed+8 '
             '(exhaustive over capacities per case). distinct = hash of the reference encoding; every case is non-trivial.',
        exhaustive=dict(quick=False, thorough=False),
        assumptions=['reference sizes from refosc.h', 'elements handed to rtosc_bundle are followed by >=4 zero bytes (API passes no element length)']),
    'C08': dict(
        level_text='Runtime monitoring against a reference model: generated element trees (0..8 elements per bundle, messages from the C01 generator or bundles, nesting depth 0..4, time tags incl. 0, 1, max) are built bottom-up with rtosc_bundle into exact-size heap buffers and compared bytewise with an independent bundle encoder; each result is decomposed recursively (rtosc_bundle_p, _elements, _fetch pointer and bytes, _size, _timetag, rtosc_message_length) under AddressSanitizer. subtree_serialize (append_bundle) is driven over a small port tree with random state and buffer capacities and compared with the reference bundle of the expected replies. Round 2-5 additions: sub-tree snapshots into dirty/reused save buffers read back under the capacity bound, near-marker addresses, bundles of up to 12 elements, shortest (8-byte) elements, unaligned placement and destination, two-segment ring measurement, reused-buffer fetch orders, generous element-count bounds.',
        level_note='Trusts refosc.h. Elements are handed over in their own buffer followed by 4 zero bytes because the API passes no element length. Held on the trees explored.',
        technique='reference-model differential monitor under AddressSanitizer/UBSan',
        stages=[dict(harness='c08', variant='asan', quick=5000, thorough=500000,
                     need=['bundle.built', 'inspect.bundle', 'inspect.message', 'inspect.fetch', 'inspect.depth_3', 'subtree.dirty_buffer', 'subtree.buffer_reused', 'inspect.message_address_near_bundle_marker',
                           'bundle.elements_0', 'bundle.elements_8', 'subtree.fits', 'subtree.too_small'])],
        rule='case = element tree (7 of 8) or subtree_serialize state+capacity (1 of 8); distinct = hash of the produced bytes; '
             'every case is non-trivial (>=1 bundle built and decomposed).',
        exhaustive=dict(quick=False, thorough=False),
        assumptions=['reference bundle encoder refosc.h', 'elements followed by >=4 zero bytes when passed to rtosc_bundle']),
    'C07': dict(
        level_text='Runtime monitoring of untrusted input: each byte buffer is copied into an exact-size block that ends at a PROT_NONE page, rtosc_message_length and rtosc_valid_message_p are run on it (an out-of-bounds read faults, a hang trips the watchdog, a length > n fails), and for every accepted buffer all accessors (argument string, count, type, argument by index, iterator) are called with explicit range checks on returned string/blob pointers and compared with an independent lenient OSC decoder. Inputs: exhaustive enumeration of all buffers up to 7/8 bytes over an 8-symbol alphabet plus all tagged 12/16-byte messages of a small family, and structure-aware mutation of valid messages (truncation, non-zero padding, crafted blob lengths incl. 32-bit wrap values, bundle size words, splices) under AddressSanitizer. Round 2-5 additions: a coverage-guided stage (libFuzzer drives the same oracle), the accepted bytes are also read back to front, from an unaligned copy and from a fixed buffer that held another message before.',
        level_note='Trusts the MMU (guard page directly behind the n bytes; reads before the buffer are only caught under ASan when they leave the mapping), harness/refosc.h lenient decoder, the 20 s no-progress watchdog for termination. Coverage-guided fuzzing is not part of the registered check.',
        technique='guard-page + reference-decoder monitor over exhaustive small inputs and structure-aware mutants (plain and AddressSanitizer builds)',
        stages=[dict(harness='c07', variant='plain', mode='exh', quick=5542473, thorough=99795529, min_per_shard=100000,
                     need=['exh.family_raw', 'exh.family_tagged', 'verdict.accepted', 'verdict.rejected', 'accepted.with_args']),
                dict(harness='c07', variant='asan', mode='mut', quick=100000, thorough=5000000,
                     need=['mut.accepted_after_mutation', 'mut.unmodified', 'accessor.iterator']),
                dict(harness='c07', variant='fuzz', mode='fuzz', fuzz=True, quick=800000, thorough=64000000, min_per_shard=50000,
                     need=['fuzz.inputs', 'fuzz.accepted', 'fuzz.corpus_seeds', 'fuzz.cov_edges_best_shard'])],
        rule='exh: every buffer of length 0..7 (quick) / 0..8 (thorough) over {00 / , s b 01 ff #} and every "/a" message with 4 tag bytes '
             'over 8 symbols x 4/8 payload bytes over 4/3 symbols x 3 truncations (exhaustive within that scope); mut: valid message + 0..3 '
             'mutations. distinct is measured on the mutation stage by hash of the bytes (and sampled 1/16384 on the exhaustive stage, whose '
             'cases are distinct by construction); non-trivial = every buffer (each is measured and validated).',
        exhaustive=dict(quick=True, thorough=True),
        assumptions=['exhaustive only inside the stated small scope; mutation stage is random', 'lenient reference decoder refosc.h']),
    'C05': dict(
        level_text='Runtime monitoring against a reference matcher written from the manual grammar: exhaustive small scope - 568 path patterns (<=3 items from literals {a,b,ab}, #N with N in {1,2,10,12}, 7 option groups incl. prefix-related and empty alternatives, with/without trailing slash) x every address over the 11-symbol alphabet "abcx0129/:#" up to length 4 (quick) / 6 (thorough) through rtosc_match_path, and for every matching pair x 5 type specs x 9 type strings through rtosc_match (three-valued type oracle: equal must match, neither equal nor extension must not, extension undecided), path_end checked; pattern and message live in exact-size guard-page buffers. Then random larger patterns (<=6 items, inner "/", indices at N-1/N/N+1, leading zeros, up to 9 digits) with derived and mutated addresses under AddressSanitizer, literal(+types) patterns also through a one-port table with and without location buffer.',
        level_note='Trusts harness/patref.h (reference matcher with backtracking). Wildcards (*, ?, []) and literals starting with a digit directly after #N are outside the documented form and not generated.',
        technique='reference-model differential monitor; exhaustive small-scope enumeration with guard pages + random differential under AddressSanitizer',
        stages=[dict(harness='c05', variant='plain', mode='exh', quick=6816, thorough=6816,
                     need=['pairs.rtosc_match_path', 'pairs.rtosc_match', 'path.ref_matches', 'verdict.must_match', 'verdict.must_not_match_types', 'verdict.types_dont_care']),
                dict(harness='c05', variant='asan', mode='rand', quick=100000, thorough=3000000,
                     need=['rand.ref_path_match', 'rand.ref_path_nomatch', 'rand.index_out_of_range', 'table.dispatch_hashed', 'table.dispatch_linear'])],
        rule='evaluations = (pattern, address[, type spec, type string]) pairs decided. exh case = one base pattern x all addresses with a given first symbol; '
             'distinct = hash(pattern, address block) for exh and hash(pattern,address,types) for rand; non-trivial = every pair (each is decided by the reference).',
        exhaustive=dict(quick=True, thorough=True),
        assumptions=['exhaustive only inside the stated small scope (stage exh); stage rand is sampled', 'reference matcher patref.h']),
    'C04': dict(
        level_text='Runtime monitoring against a reference dispatcher: port trees are generated at run time (1..24 names over a small alphabet so shared prefixes, equal lengths and anagrams are frequent; :types specs; #N; nested to 3 levels; default handlers; ClonePorts/MergePorts derivations) and realised as real rtosc::Ports with logging callbacks; every derived address (exact, index 0/N-1/N/N+1/leading zeros, one character appended/removed/changed, missing/extra "/") x admitted and foreign type tags is dispatched from the root without and with a location buffer (reused across dispatches). The oracle compares the multiset of invoked callbacks (port id, message pointer offset, runtime object) with the reference, checks d.loc, d.port, d.message, d.matches, loc/obj restoration, and that both strategies invoke the same callbacks. The lookup-kind hook proves hashed and linear tables were both exercised.',
        level_note='Trusts harness/treegen.h + patref.h (reference dispatcher). Type strings that extend an alternative are undecided (either outcome accepted). Addresses are printable ASCII. Default-handler invocations are only counted for d.matches.',
        technique='reference-model differential monitor over generated port tables under AddressSanitizer/UBSan',
        stages=[dict(harness='c04', variant='asan', quick=1500, thorough=40000,
                     need=['tables.hashed', 'tables.linear_because_enum', 'tables.linear_hash_failed', 'dispatch.expect_delivery',
                           'dispatch.expect_nothing', 'dispatch.nested_delivery', 'dispatch.default_handler_invoked', 'tables.MergePorts', 'tables.ClonePorts'])],
        rule='case = one generated port tree with all addresses derived from it (evaluations counts dispatched (tree, address, types) triples, each run with and without location buffer); '
             'distinct = hash of the rendered tree; non-trivial = every tree.',
        exhaustive=dict(quick=False, thorough=False),
        assumptions=['reference dispatcher treegen.h/patref.h']),
    'C06': dict(
        level_text='Three runtime-monitoring engines on the real ThreadLink. (1) seq: random single-thread histories of write/writeArray/raw_write (sizes from far below to above MaxMsg, exact-fill frequent), read, hasNext, lookahead reads, on small rings, in lock-step with a reference FIFO model (one-slot-free rule, drop-whole rule, lookahead cursor resynchronised by a normal read), AddressSanitizer. (2) sched: two real threads run short writer/reader programs and hand over a baton at hooks placed before every load/store of the ring indices and every ring copy; ALL schedules with <=2 (quick) / <=3 (thorough, every 10th program) preemptions are enumerated per program pair, plus random schedules beyond the bound; because one thread runs at a time the model is updated exactly at the publishing/consuming stores, so hasNext results, accept/drop decisions, returned bytes and order are decided exactly; distinct interleavings are counted. (3) stress: free-running writer and reader under ThreadSanitizer with delays injected at the same hooks, flow-controlled (no loss allowed) and overflow (loss only where harness-side bounds on free space permit) regimes, unique sequence numbers and payloads derived from them.',
        level_note='Interleavings are exhaustive only under the preemption bound and at hook granularity (a copy is one step); weak-memory reorderings are not modelled (indices are seq_cst; ThreadSanitizer covers happens-before). Trusts the reference model in harness/c06.cpp.',
        technique='controlled-schedule enumeration (preemption bounding) + sequential model checking of histories + ThreadSanitizer stress with sequence-number oracle',
        stages=[dict(harness='c06', variant='asan', mode='seq', quick=20000, thorough=1000000,
                     need=['seq.write_accepted', 'seq.write_dropped_full', 'seq.write_dropped_oversize', 'seq.read', 'seq.read_lookahead', 'seq.ring_wrapped', 'seq.observed_empty', 'seq.large_maxmsg']),
                dict(harness='c06', variant='asan', mode='sched', quick=96, thorough=480, min_per_shard=1, case_timeout=300,
                     need=['sched.executions', 'sched.distinct_interleavings', 'sched.executions_with_accepted_write']),
                dict(harness='c06', variant='tsan', mode='stress', quick=6, thorough=20, min_per_shard=1, shards=6, case_timeout=600,
                     need=['stress.flow_runs', 'stress.overflow_runs', 'stress.accept_must_checked', 'stress.drop_must_checked'])],
        rule='seq: case = one operation history; sched: case = one writer/reader program pair, evaluations = controlled executions, distinct = distinct interleavings '
             '(hash of the per-step thread sequence) measured by the scheduler; stress: case = one two-thread run, evaluations = messages written. non-trivial = every execution.',
        exhaustive=dict(quick=False, thorough=False),
        assumptions=['exhaustive only within the preemption bound and hook granularity', 'sequentially consistent atomics (no weak-memory modelling)']),
    'C17': dict(
        level_text='Runtime monitoring with a constructive oracle: metadata blocks are generated from a list of (key, optional value) entries (1..8 entries, keys and values over the alphabet "ab:= 01", empty values, value-less entries in every position, repeated keys), placed in exact-size heap blocks and read back through range-for over Port::meta(), operator[], find and length(); the expectation is the list itself. Blocks produced by the library macros (rMap, rProp, rDoc, rOptions, rLinear, rPreset, rDepends ...) are checked the same way. AddressSanitizer watches the terminator.',
        level_note='Trusts the generator (expected list = what was written). Keys are non-empty and do not start with ":".',
        technique='constructive-oracle monitor under AddressSanitizer/UBSan',
        stages=[dict(harness='c17', variant='asan', quick=50000, thorough=5000000,
                     need=['blocks', 'entries_iterated', 'lookups', 'blocks.macro_built', 'blocks.empty', 'blocks.repeated_key', 'blocks.empty_value_not_last', 'blocks.value_starts_with_colon', 'blocks.long_value', 'blocks.long_key', 'blocks.documentation_key'])],
        rule='case = one metadata block; distinct = hash of the block bytes; every block is non-trivial (>=1 entry iterated, looked up and measured).',
        exhaustive=dict(quick=False, thorough=False),
        assumptions=['expected entries are the generator\'s own list']),
    'C18': dict(
        level_text='Runtime monitoring against reference models: (a) Ports::collapsePath on generated absolute paths (1..8 components, ".." at every position incl. leading and surplus, long and dot-containing names) in exact-size heap buffers vs. a component-stack reference, result pointer must lie inside the buffer; (b) for generated port trees the library walk reports (port, address) pairs and Ports::apropos(address) must return that port whenever no sibling name is a prefix of another on the way; (c) path_search (array and message API) on tables with duplicate names, common prefixes, "a/" next to "a/b", metadata blocks of 0..60 bytes in exact-size heap blocks, for every option and with/without query echo, vs. a reference child search; the reply message is validated and decoded with the independent codec.',
        level_note='apropos is only required where no sibling name (raw or expanded) is a prefix of another (conservative predicate computed per table). path_search locations are "", "/" or the address of a sub-tree port without trailing slash. Metadata of equal-named children is compared as a multiset under the sorting options (std::sort is not stable).',
        technique='reference-model differential monitor under AddressSanitizer/UBSan',
        stages=[dict(harness='c18', variant='asan', quick=40000, thorough=2000000,
                     need=['collapse.paths', 'collapse.with_dotdot', 'apropos.lookups', 'apropos.lookups_enumerated', 'search.one_character_relative_location', 'search.exact_fit_arrays', 'apropos.lookups_deep_leaf_with_trailing_slash', 'search.array_api', 'search.message_api',
                           'search.opt_0', 'search.opt_1', 'search.opt_2', 'search.prefix_filtered', 'search.more_than_16_results'])],
        rule='case = one path (2 of 4), one generated tree with all walked addresses (1 of 4) or one (tables, location, prefix, option) query (1 of 4); '
             'distinct = hash of the rendered case; every case is non-trivial.',
        exhaustive=dict(quick=False, thorough=False),
        assumptions=['reference collapse / child search in harness/c18.cpp', 'library walk_ports supplies the walked addresses (its exactness is C09)']),
    'C16': dict(
        level_text='Runtime monitoring of algebraic laws: per case a pool of 9 argument lists (0..6 values, every scalar type, arrays of every element type and length 0..4 incl. empty typed arrays, values from 3-7 element pools so ties and prefixes are frequent; 64-bit values whose differences do not fit 32 bits; blobs that are zero-extended prefixes of each other) is compared pairwise and in triples: reflexivity, antisymmetry, transitivity (incl. ties), cmp==0 iff eq, and the documented order for same-type single values against a reference comparator. For each list EVERY subset of its constant/arithmetic runs (found by the harness, also inside arrays) is compressed (N x value, start/delta range): equality, order against every other list, iteration and rtosc_avmessage output must not change.',
        level_note='NaN is excluded (no order is claimed); cross-type order and list-length order are only checked through the laws; arithmetic runs use values whose float arithmetic is exact. Infinite ranges are not generated.',
        technique='law-based (algebraic) runtime monitor with harness-side run finder, AddressSanitizer/UBSan',
        stages=[dict(harness='c16', variant='asan', quick=4000, thorough=200000,
                     need=['pairs', 'pairs.tied', 'triples', 'compressed_variants', 'pairs.compressed_variants', 'pairs.reference_order', 'iterated_values', 'avmessages', 'pairs.with_tolerance', 'runs.inexact_float_step'])],
        rule='case = pool of 9 lists: 81 ordered pairs (x compressed variants), 729 triples; every 5th case = all pairs of 8 same-type single values. '
             'distinct = hash of the rendered pool; every case is non-trivial.',
        exhaustive=dict(quick=False, thorough=False),
        assumptions=['laws + reference comparator in harness/c16.cpp']),
    'C15': dict(
        level_text='Runtime monitoring against a reference state machine: random histories (0..60 operations) of record(address, old, new) over 2..5 addresses and value types i/f/c, seek(+-k) incl. far beyond both ends, and clock advances of 0..3 s (virtual clock: the harness defines time()) are applied to the real UndoHistory and to the model in lock-step; after every operation getPos(), size() and the exact byte sequence of messages delivered to the callback are compared; record-heavy histories cross the 20-event cap, merges into non-newest entries are counted. End-to-end stage: the events come from the library\'s own parameter ports (rParamI, rParam, rOption, rArrayI, rParamF) via /undo_change replies, undo/redo messages are dispatched back into the ports, and undo-all / redo-all must reach the initial / final snapshot of the runtime object.',
        level_note='Trusts the reference model in harness/c15.cpp: merge = newest-first search for an entry with the same address whose (refreshed) time stamp is at most 2 s old. time() is replaced at link time (static link of the library objects).',
        technique='reference state-machine monitor in lock-step, virtual clock, AddressSanitizer/UBSan',
        stages=[dict(harness='c15', variant='asan', mode='model', quick=20000, thorough=1000000,
                     need=['ops.record', 'ops.seek_undo_effective', 'ops.seek_redo_effective', 'model.merged', 'model.merged_into_non_newest', 'model.cap_dropped', 'state.at_cap', 'addresses.one_prefix_of_another', 'ops.seek_extreme_distance', 'addresses.long_pool']),
                dict(harness='c15', variant='asan', mode='e2e', quick=5000, thorough=200000,
                     need=['e2e.sets', 'e2e.undo_all_checked', 'e2e.redo_all_checked', 'e2e.option_set_by_symbol', 'e2e.float_one_ulp_step'])],
        rule='case = one operation history; distinct = hash of the rendered history; every history with >=1 operation is non-trivial.',
        exhaustive=dict(quick=False, thorough=False),
        assumptions=['reference undo model harness/c15.cpp']),
    'C19': dict(
        level_text='Runtime monitoring against a reference model: random histories (1..40 operations over 2..6 slots x 1..3 sub-automations) of createBinding (with/without learn, bindable and non-bindable ports), clearSlot, clearSlotSub, gain/offset + updateMapping, setSlot (values in and outside [0,1]), handleMidi with bound/unbound controllers and NRPN value messages are applied to the real AutomationMgr and to a reference learn FIFO / binding map in lock-step; after every operation learn_queue_len and every slot\'s learning position, midi_cc and midi_nrpn must agree with the model. Every message handed to the backend is checked: one per used sub-automation, address and type of the bound parameter, value inside the declared [min,max], non-decreasing in the slot value for positive gain, and at default gain/offset equal to the linear (or log-scale, rel. 2e-5) image of the slot value.',
        level_note='Trusts the reference model in harness/c19.cpp. NRPN parameter numbers are selected once at the start of a history with a full nrpnhi/nrpnlo pair. Integer outputs within 1e-4 of a rounding boundary may round either way.',
        technique='reference state-machine monitor in lock-step + output-constraint monitor, AddressSanitizer/UBSan',
        stages=[dict(harness='c19', variant='asan', quick=20000, thorough=1000000,
                     need=['ops.createBinding', 'ops.learn_requests', 'ops.clearSlot', 'ops.clear_nonlearning_while_others_wait', 'ops.setSlot', 'ops.gain_offset',
                           'midi.bound_cc', 'midi.learned_cc', 'midi.unbound_ignored', 'midi.bound_nrpn', 'midi.learned_nrpn', 'nrpn.data_entry_without_select', 'nrpn.select_mid_history', 'ops.createBinding_long_path', 'ops.setSlot_far_outside', 'nrpn.number_in_cc_id_range', 'out.messages', 'out.monotone_checked', 'out.linearity_checked']),
                MEMCHECK('c19', quick=3200, thorough=64000)],
        rule='case = one operation history; distinct = hash of the rendered history; every history is non-trivial.',
        exhaustive=dict(quick=False, thorough=False),
        assumptions=['reference automation model harness/c19.cpp']),
    'C20': dict(
        level_text='Runtime monitoring against a reference model of the learn protocol: the realtime half (MidiMapperRT) and the non-realtime half (MidiMappernRT) are connected by two harness-owned FIFOs (/midi-use-CC one way, /midi-learn/midi-add-watch and /midi-learn/midi-bind the other); random histories (<=30 steps) of map(address, coarse|fine), incoming CC(id, value), unMap, clear over 2..4 addresses (int and float ranges, incl. the 0..127 special case and a range below zero) and 2..6 controllers are interleaved with deliveries of the head of either FIFO, either promptly or delayed, which samples the admissible message orders. After every step the non-realtime learn queue and coarse/fine bindings must equal the model; for every CC the monitor demands exactly one parameter message with the bound address and type, a value inside [min,max] equal to the 7/14-bit composition mapped linearly, no message for unassigned controllers, and exactly one learn offer for a free controller while a watch is armed.',
        level_note='Trusts the reference protocol model in harness/c20.cpp (it mirrors the documented handshake: a bind pops the oldest pending controller; stored 7-bit halves persist per controller id across re-binding). Message orders are sampled, not enumerated.',
        technique='reference protocol-model monitor in lock-step with harness-controlled message delivery, AddressSanitizer/UBSan',
        stages=[dict(harness='c20', variant='asan', quick=10000, thorough=500000,
                     need=['ops.map', 'ops.cc', 'ops.unMap', 'ops.unmap_effective', 'ops.clear', 'cc.bound', 'cc.bound_14bit', 'cc.offered_for_learning', 'cc.ignored',
                           'wire.bind_delivered', 'wire.watch_delivered', 'wire.learn_served', 'ops.remap_of_bound_half', 'params.int_range_next_to_0_127', 'histories.long', 'histories.controllers_on_several_channels'])],
        rule='case = one history incl. delivery schedule; distinct = hash of the rendered history; every history is non-trivial.',
        exhaustive=dict(quick=False, thorough=False),
        assumptions=['reference protocol model harness/c20.cpp']),
    'C14': dict(
        level_text='Runtime monitoring against per-kind reference semantics: the library\'s own macro callbacks (rParamCb on signed and unsigned char, rParamICb, rParamFCb, rToggleCb, rOptionCb, rStringCb, rArrayFCb, rArrayICb, rArrayTCb, rArrayOptionCb) are combined with run-time generated port names, array lengths 1..8 and metadata (min/max both, one-sided, negative, fractional, absent; option maps), at the root or below a sub-tree port. Sequences of 20..100 set/query messages per configuration (values in range, at and one beyond each bound, storage-type extremes, non-integral floats, option symbols and indices) are dispatched with a location buffer; after each message the whole runtime object is compared bytewise with the reference (clamped value stored, nothing else touched), and the captured reply/broadcast/undo messages are checked for count, full address, type, value, and (old,new) of the undo event.',
        level_note='Trusts the reference semantics in harness/c14.cpp (clamp with atoi/atof of the metadata strings as a reader of the metadata would). Char-backed kinds are driven with values the storage type can represent; unknown option symbols are excluded; array port names contain no digits.',
        technique='reference-model differential monitor with full object snapshots, AddressSanitizer/UBSan',
        stages=[dict(harness='c14', variant='asan', quick=1600, thorough=100000,
                     need=['msgs.query', 'msgs.set', 'undo.expected_event', 'undo.expected_none', 'options.split_mapping_block', 'nesting.below_enumerated_subtree', 'msgs.float_one_ulp_step', 'options.numeral_symbols', 'meta.special_before_range', 'msgs.preceded_by_other_traffic_in_same_loc'] + ['kind.' + k for k in ['rParam(char)', 'rParam(uchar)', 'rParamI', 'rParamF', 'rParamF(double)', 'rToggle', 'rOption', 'rString', 'rArrayF', 'rArrayI', 'rArrayT', 'rArrayOption']])],
        rule='case = one port configuration (kind, name, metadata, array length, nesting) with a sequence of 20..100 messages; evaluations counts messages; '
             'distinct = hash of the configuration; every case is non-trivial.',
        exhaustive=dict(quick=False, thorough=False),
        assumptions=['reference port semantics harness/c14.cpp']),
    'C03': dict(
        level_text='Runtime monitoring by interposition: the harness executable defines malloc/calloc/realloc/free/memalign/aligned_alloc/posix_memalign, operator new/delete (all forms) and pthread_mutex_lock/trylock/timedlock, pthread_rwlock_rd/wrlock, pthread_spin_lock, pthread_cond_wait, sem_wait itself (forwarding to glibc); a thread-local flag marks realtime sections and every intercepted call inside one is a violation with its backtrace. Inside sections run: message construction (argument array, hand-built va_list incl. 33..48 value arguments, true varargs, NULL-size query, too-small buffer), measuring/validating/reading (all accessors, iterator), bundle build/read, pattern matching, Ports::dispatch with and without location buffer on generated port trees (hashed tables incl. names >= 16 characters, enumerated tables, tables whose hash generation failed, nested sub-trees, default handlers; matching, non-matching, oversized and every-type-tag messages), dispatch through the library\'s own macro callbacks (rParam*, rOption incl. symbols, rToggle, rString, rArray*, rRecur/rRecurp/rRecurs/rRecursp, null pointer) with the default RtData::reply/broadcast forwarding, and ThreadLink write/writeArray/raw_write/hasNext/read/peak/read_lookahead on empty, full and wrapping rings. The monitor self-tests that it sees malloc, operator new and pthread_mutex_lock before every run.',
        level_note='Only intercepted symbols are seen (glibc-internal stdio locks are not pthread_mutex_* calls through the PLT). Plain (non-sanitizer) build because AddressSanitizer owns the allocator. Setup (port tables, ThreadLink, message generation) happens outside the sections.',
        technique='allocator / lock interposition monitor with realtime-section flag (plain build)',
        stages=[dict(harness='c03', variant='plain', quick=2400, thorough=200000, ldextra=['-rdynamic'],
                     need=['rt.build_amessage', 'rt.build_vmessage', 'rt.build_message_varargs', 'rt.size_query', 'rt.build_does_not_fit', 'rt.measure_and_read', 'rt.reply_forwarding_large', 'tables.big_root_table_generated', 'rt.match',
                           'rt.bundle_build', 'rt.bundle_read', 'rt.tree_dispatch_loc_hit', 'rt.tree_dispatch_loc_miss', 'rt.tree_dispatch_noloc_hit', 'rt.tree_dispatch_noloc_miss',
                           'rt.tree_dispatch_default_handler', 'rt.sugar_dispatch_loc_hit', 'rt.sugar_dispatch_loc_miss', 'rt.sugar_dispatch_noloc_hit', 'rt.sugar_dispatch_noloc_miss',
                           'rt.threadlink_write', 'rt.threadlink_writeArray', 'rt.threadlink_raw_write', 'rt.threadlink_read', 'rt.threadlink_read_lookahead', 'rt.threadlink_hasNext_true',
                           'rt.threadlink_hasNext_false', 'tables.hashed', 'tables.enumerated', 'tables.hash_failed', 'tables.with_default', 'codec.more_than_32_values'])],
        rule='case = one generated tree with ~120 messages (2 of 8), one batch of 24 messages through the macro zoo (2 of 8), one ThreadLink history (1 of 8) or one message through all codec operations (3 of 8); '
             'distinct = hash of the rendered case; every case is non-trivial. Buckets rt.* count realtime sections that were executed and found clean.',
        exhaustive=dict(quick=False, thorough=False),
        assumptions=['only the interposed symbols are observed']),
    'C10': dict(
        level_text='Runtime monitoring of a round-trip law: generated argument lists (0..12 values and beyond through runs; every printable type: i/h over the full range, chars over printable ASCII and the C escapes, finite floats/doubles in lossless mode, strings/symbols with quotes, backslashes, %, newlines, keyword look-alikes, blobs, MIDI, colours, T/F/N/I, time tags that are "immediately" or have a float-representable fraction, homogeneous arrays of 0..8 elements, constant and arithmetic runs of length 1..9 around the compression threshold) are printed with random options (line length 10..120, precision 0..9, compression on/off) by rtosc_print_arg_vals / rtosc_print_message; then strlen == return value, the syntax checker must accept and count, the scanner must write exactly that many values and consume the whole text, and the scanned values, expanded by the harness, must be bit-identical to the originals (and rtosc_arg_vals_eq must agree). Text is scanned from an exact-size heap copy under AddressSanitizer, TZ=UTC.',
        level_note='Trusts the harness expansion of ranges (same arithmetic as the library: start + i*delta). Lossy float printing is out of scope (lossless mode only).',
        technique='round-trip law monitor (print/check/scan) under AddressSanitizer/UBSan',
        stages=[dict(harness='c10', variant='asan', quick=30000, thorough=2000000,
                     need=['printed.lists', 'printed.messages', 'scanned', 'roundtrips_ok', 'printed.with_linebreak', 'printed.with_range_syntax', 'gen.adjacent_progressions_at_start', 'gen.unit_progression_after_array', 'gen.array_with_inner_run_then_run', 'gen.span_at_type_range', 'gen.large_step', 'gen.large_step_64bit'])],
        rule='case = one argument list + print options (every 4th as a whole message); distinct = hash of the rendered list and options; '
             'non-trivial = every case.',
        exhaustive=dict(quick=False, thorough=False),
        assumptions=['TZ=UTC', 'harness-side range expansion']),
    'C11': dict(
        level_text='Runtime monitoring with a constructive oracle: sentences of the manual\'s pretty-format grammar are generated from (value, spelling) choices - decimal / hex / octal / i,h,f,d suffixes / exponent forms / hex floats / decimal with the exact value in parentheses, escaped characters, strings incl. backslash-concatenated ones, identifiers and quoted symbols, now/immediately, timestamps with optional time and fraction, MIDI, blobs, colours, NxA repetitions (also of arrays), "a b ... c" ranges over c/i/h/f/d with and without left neighbour, arrays incl. open-ended ranges at their end - up to ~10 values per text. For each sentence the plain layout and two layouts with 0..3 whitespace/newline/tab/comment insertions between values are checked: the syntax checker accepts, the scanner writes exactly the counted values and consumes the text, the values equal the ones the spelling denotes (bit-exact), layouts scan to equal values, and printing the scanned values (random options) and scanning again yields equal values.',
        level_note='Expected values come from the generator (strtof/strtod for decimal spellings, exact arithmetic for ranges built from exactly representable steps). Overlapping ranges, ranges of other than c/i/h/f/d and leading/trailing filler are outside the documented grammar and not generated.',
        technique='constructive-oracle (value-first) generator + round-trip monitor under AddressSanitizer/UBSan',
        stages=[dict(harness='c11', variant='asan', quick=20000, thorough=1000000,
                     need=['sentences', 'layouts', 'reprints', 'syntax.array', 'syntax.range_h_wide_step', 'reprints_with_options', 'syntax.progression_behind_range_with_same_start', 'syntax.range_behind_repeated_array', 'syntax.spelled_progression', 'syntax.unrelated_value_before_progression', 'syntax.range_chain', 'syntax.array_endless_range_of_other_type', 'syntax.multiplier', 'syntax.range_with_delta', 'syntax.range_unit_step', 'syntax.endless_range_with_delta',
                           'syntax.endless_range_deltaless', 'syntax.hex_int', 'syntax.hex_float', 'syntax.exact_value_in_parentheses', 'syntax.concatenated_string', 'syntax.quoted_symbol', 'syntax.time_fraction'])],
        rule='case = one sentence (3 layouts + 1 reprint); distinct = hash of the plain sentence; every sentence is non-trivial.',
        exhaustive=dict(quick=False, thorough=False),
        assumptions=['TZ=UTC', 'generator-side expected values']),
    'C12': dict(
        level_text='Runtime monitoring against a reference application model: the zoo application (fixed structs Root/Mid/Leaf; port tables rebuilt per case from the library\'s own macro callbacks with generated defaults, ranges, preset-dependent defaults via rDefaultDepends/rPreset, rEnabledBy in both placements, rDepends, option maps, string defaults with quotes/newlines/%, compressed array defaults, random subsets and order of ports, enumerated and pointer sub-trees) is driven into a state by 0..40 random parameter messages dispatched through its ports, saved with save_to_file and loaded with load_from_file into a freshly default-initialised instance. Oracle: every field of the loaded instance equals the saved state (below disabled sub-trees and null pointers excluded), the return value equals the number of message lines, a line exists exactly for the parameters whose value differs from their (preset-selected) default, an untouched application saves only the two header lines; files with a wrong header, another application name, an unparsable line or a line no port accepts must yield a negative result.',
        level_note='Applications are compositions of one fixed struct zoo, not arbitrary C++. Dependency paths follow the documented contract (sibling port for rDefaultDepends; same level or name/x for rEnabledBy). Trusts harness/zoo.h for defaults and the reachable state.',
        technique='reference-model differential monitor over generated applications and states, AddressSanitizer/UBSan',
        stages=[dict(harness='c12', variant='asan', mode='save', quick=4000, thorough=200000,
                     need=['save.files', 'save.message_lines', 'save.untouched_apps', 'load.states_restored', 'save.disabled_subtree', 'save.null_pointer_subtree', 'reject.files'])],
        rule='case = one generated application + message history (4 of 5) or one corrupted savefile (1 of 5); distinct = hash of the rendered configuration and history; every case is non-trivial.',
        exhaustive=dict(quick=False, thorough=False),
        assumptions=['reference application model harness/zoo.h']),
    'C13': dict(
        level_text='Runtime monitoring of order independence: savefiles produced from the C12 state space (applications with order-sensitive semantics declared through metadata: a preset port whose setter re-initialises the ports that rDefaultDepends on it, an enabling toggle whose activation resets the sub-object (rEnabledBy, both placements), a value port clamped by a mode port it rDepends on; at depth 1..3 and below #N components) are loaded with their message lines permuted - ALL permutations up to 6 lines, 200 random ones plus the reverse beyond - and with one line removed in both orders; state and return value must equal those of the original order.',
        level_note='Every coupling the zoo has is declared through one of the three metadata keys. Trusts harness/zoo.h.',
        technique='permutation-invariance monitor (exhaustive up to 6 lines) over generated savefiles, AddressSanitizer/UBSan',
        stages=[dict(harness='c12', variant='asan', mode='order', quick=1500, thorough=40000,
                     need=['order.files', 'order.permutations', 'order.exhaustive_files', 'order.subset_files'])],
        rule='case = one savefile with all/200 permutations of its message lines; evaluations counts loaded permutations; distinct = hash of configuration+file; '
             'non-trivial = files with >= 2 message lines.',
        exhaustive=dict(quick=False, thorough=False),
        assumptions=['reference application model harness/zoo.h', 'exhaustive over permutations only up to 6 lines']),
    'C09': dict(
        level_text='Runtime monitoring against a reference expansion: (tree) generated port trees of depth 1..4 with leaf and sub-tree ports, #N at any level, multi-component names such as a#3/b#2/c/ and argument specs are walked with the default options from an empty and from a prefixed name buffer; the multiset of (port, address) pairs must equal the reference expansion (each #N -> 0..N-1), the buffer must hold the starting prefix afterwards, and every reported address is sent back as a message and must invoke exactly the reported port; the other option combinations are only checked for buffer restoration and memory safety. (zoo) the zoo application built from rRecur/rRecurs/rRecurp/rSelf/rEnabledBy is walked with its runtime object in all 256 states of its enabling toggles and pointers: the reported addresses must be exactly those below enabled sub-trees / non-null pointers (a disabled object still presents its enabling toggle), and the walker must receive the runtime object that owns each port. Round 2-5 additions: two/three-digit indices, toggles named after the sub-tree they enable, integer-valued enabling ports, a pointer sub-tree gated by a toggle, both enabling declarations on one object, walks that start at a sub-object\'s table below short and 270-character caller locations.',
        level_note='Trusts treegen.h (reference expansion) and zoo.h (which sub-trees are live). Leaves with two enumerations are a known finding (dedicated witness, not generated otherwise).',
        technique='reference-model differential monitor (expansion + dispatch-back) and exhaustive runtime-state sweep, AddressSanitizer/UBSan',
        stages=[dict(harness='c09', variant='asan', mode='tree', quick=800, thorough=30000,
                     need=['tree.walks', 'tree.addresses_reported', 'tree.dispatched_back', 'tree.walks_other_options', 'tree.three_digit_indices']),
                dict(harness='c09', variant='asan', mode='zoo', quick=60, thorough=2000, min_per_shard=1,
                     need=['zoo.walks', 'zoo.pruned_by_sibling_toggle', 'zoo.pruned_by_own_toggle', 'zoo.pruned_null_pointer', 'zoo.null_pointer_with_toggle_on', 'zoo.pruned_pointer_by_toggle', 'zoo.toggle_name_starts_with_subtree_name', 'zoo.walks_from_object_table', 'zoo.walks_below_long_location', 'zoo.object_table_walk_of_disabled_object', 'zoo.enabled_by_integer_level_multiple_of_256'])],
        rule='tree: case = one generated tree (2 default walks + dispatch of up to 150 reported addresses + 3 option variants); zoo: case = one generated application x all 256 runtime states; '
             'distinct = hash of the rendered tree / configuration; every case is non-trivial.',
        exhaustive=dict(quick=False, thorough=False),
        assumptions=['reference expansion treegen.h', 'zoo.h liveness model', 'runtime states exhaustive over the 8 pruning bits only']),
}


# ---------------------------------------------------------------------------
# memcheck stages: the same harness and cases on the uninstrumented build under valgrind (see MEMCHECK above);
# (property, harness, mode, quick, thorough)
for _p, _h, _m, _q, _t in [
        ('C01', 'c01', '', 16000, 320000), ('C02', 'c02', '', 3200, 64000), ('C04', 'c04', '', 2400, 48000),
        ('C08', 'c08', '', 16000, 320000), ('C09', 'c09', 'tree', 3200, 64000), ('C09', 'c09', 'zoo', 48, 960),
        ('C10', 'c10', '', 16000, 320000), ('C11', 'c11', '', 8000, 160000), ('C12', 'c12', 'save', 1600, 32000),
        ('C13', 'c12', 'order', 64, 1280), ('C14', 'c14', '', 3200, 64000), ('C15', 'c15', 'model', 8000, 160000),
        ('C15', 'c15', 'e2e', 4000, 80000), ('C16', 'c16', '', 3200, 64000), ('C17', 'c17', '', 16000, 320000),
        ('C18', 'c18', '', 8000, 160000), ('C20', 'c20', '', 8000, 160000)]:
    PROPS[_p]['stages'].append(MEMCHECK(_h, quick=_q, thorough=_t, mode=_m))
    if 'memcheck' not in PROPS[_p]['technique']:
        PROPS[_p]['technique'] += ' + valgrind memcheck pass over the same cases'
        PROPS[_p]['level_note'] += ' A smaller sample of the same cases runs on the uninstrumented build under valgrind memcheck (use of uninitialised memory, invalid accesses ASan red zones miss).'
if 'memcheck' not in PROPS['C19']['technique']:
    PROPS['C19']['technique'] += ' + valgrind memcheck pass over the same cases'
    PROPS['C19']['level_note'] += ' A smaller sample of the same cases runs on the uninstrumented build under valgrind memcheck (use of uninitialised memory).'
