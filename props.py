# Property table for verif.py: which harness stages decide each property and
# with which budgets (case counts, never seconds).
NOT_APPLICABLE = {}

PROPS = {
    'C01': dict(
        level_text='Runtime monitoring against a reference model: every generated (address, type string, values) case is encoded by all four constructors (rtosc_amessage, rtosc_vmessage through a hand-built va_list, true-varargs rtosc_message call sites, rtosc_avmessage incl. compressed ranges) and compared bytewise with an independent OSC 1.0 encoder; the bytes are then read back from an exact-size heap copy through every accessor and compared bit-for-bit. Held on the cases explored (type strings exhaustive to length 2/3, random beyond), not a proof.',
        level_note='Trusts the reference codec harness/refosc.h (written from the OSC 1.0 text), the x86-64 SysV va_list layout, gcc AddressSanitizer red zones for out-of-bounds detection. Float signalling NaNs are not passed through varargs paths (C promotion quiets them).',
        technique='reference-model differential monitor under AddressSanitizer/UBSan',
        stages=[dict(harness='c01', variant='asan', quick=24000, thorough=1500000,
                     need=['encode.amessage', 'encode.vmessage', 'encode.message', 'encode.avmessage',
                           'decode.iter_values', 'ranges.compressed_runs', 'msgs.with_brackets', 'msgs.null_blob'])],
        rule='case = (address, type string, values); exhaustive over type strings of 17 symbols up to length 2 (quick) / 3 '
             '(thorough) x 4 address alignments x 3 value profiles, then random type strings up to length 40; every 8th random '
             'case is an arg-val list with compressed runs. distinct = hash(type string, first 64 reference bytes); '
             'non-trivial = every case (each is encoded by 4 constructors and decoded by 5 accessors).',
        exhaustive=dict(quick=False, thorough=False),
        assumptions=['reference codec refosc.h written from the OSC 1.0 text is correct',
                     'x86-64 SysV va_list layout for the hand-built va_list path',
                     'float NaNs passed through varargs are quiet (C default promotion quiets signalling NaNs)']),
}
