// C20 — a learned MIDI controller drives exactly its parameter, within its range.
// The realtime (MidiMapperRT) and non-realtime (MidiMappernRT) halves exchange
// their messages through two harness-owned FIFOs; the generator decides when the
// head of either FIFO is delivered.  Oracle: reference model of the learn
// protocol + output constraints per controller value.
#include "vh.h"
#include <math.h>
#include <deque>
#include <rtosc/miditable.h>
#include <set>
#include <rtosc/ports.h>
#include <rtosc/port-sugar.h>
using namespace vh;

struct PI { const char *addr; char type; double mn, mx; };
// all parameters of the application; every history uses up to four of them (PARAMS)
static const PI ALL_PARAMS[] = {{"/pa", 'i', 0, 127}, {"/pb", 'f', -1, 3}, {"/pc", 'i', -64, 64}, {"/pd", 'f', 20, 2000},
                                {"/pe", 'i', -64, 63}, {"/pf", 'i', 1, 128}, {"/pg", 'i', 0, 126}, {"/ph", 'i', 0, 128}};   // 128 steps wide but not 0..127; neighbours of 0..127
static PI PARAMS[4];
static void nop(const char *, rtosc::RtData &) {}
static const rtosc::Ports ports = {
    {"pa::i", rMap(min, 0) rMap(max, 127), 0, nop},
    {"pb::f", rMap(min, -1) rMap(max, 3), 0, nop},
    {"pc::i", rMap(min, -64) rMap(max, 64), 0, nop},
    {"pd::f", rMap(min, 20) rMap(max, 2000), 0, nop},
    {"pe::i", rMap(min, -64) rMap(max, 63), 0, nop},
    {"pf::i", rMap(min, 1) rMap(max, 128), 0, nop},
    {"pg::i", rMap(min, 0) rMap(max, 126), 0, nop},
    {"ph::i", rMap(min, 0) rMap(max, 128), 0, nop},
};

// ---------------------------------------------------------------- model
struct Entry { int id; bool coarse; int ai; };            // ai = parameter index
struct Snapshot { std::vector<Entry> map; };
struct Model {
    // non-realtime half
    std::deque<std::pair<int, bool>> learn;                  // (parameter, coarse)
    int coarse[4] = {-1, -1, -1, -1}, fine[4] = {-1, -1, -1, -1};
    std::vector<Entry> nrt_map;                              // mapping of the newest snapshot, in table order
    // realtime half
    std::vector<Entry> rt_map;
    bool rt_has_storage = false;
    int hi[4] = {0, 0, 0, 0}, lo[4] = {0, 0, 0, 0};
    std::deque<int> pending;
    unsigned watch = 0;
};

struct Wire { std::string msg; Snapshot snap; bool is_bind; };
static std::deque<Wire> to_rt;
static std::deque<std::string> to_nrt;
static std::vector<std::string> g_backend;    // parameter messages of the current step
static Snapshot g_pending_snapshot;
static Model *G;

static std::string g_hist;
static bool g_failed;
static void bad(const char *chk, const std::string &obs, const std::string &exp)
{
    if(g_failed) return;
    g_failed = true;
    fail(chk, {}, g_hist, obs, exp);
}

static void kill_id(std::vector<Entry> &m, int id)
{
    std::vector<Entry> n;
    for(auto &e : m) if(e.id != id) n.push_back(e);
    m = n;
}

int main(int argc, char **argv)
{
    return main_loop(argc, argv, 0xC20, [](uint64_t, Rng &r) {
        rtosc::MidiMapperRT rt;
        rtosc::MidiMappernRT nrt;
        Model m;
        G = &m;
        to_rt.clear(); to_nrt.clear();
        g_failed = false;
        nrt.base_ports = &ports;
        // non-realtime -> realtime wire; every bind message is paired with the model's snapshot at that moment
        nrt.rt_cb = [&](const char *msg) {
            Wire w; w.msg.assign(msg, rtosc_message_length(msg, 1024));
            w.is_bind = !strcmp(msg, "/midi-learn/midi-bind");
            w.snap.map = m.nrt_map;
            to_rt.push_back(w);
        };
        rt.setFrontendCb([&](const char *msg) { to_nrt.push_back(std::string(msg, rtosc_message_length(msg, 1024))); });
        rt.setBackendCb([&](const char *msg) { g_backend.push_back(std::string(msg, rtosc_message_length(msg, 1024))); });
        int naddr = (int)r.range(2, 4), nctl = (int)r.range(2, 6);
        { std::vector<int> idx = {0, 1, 2, 3, 4, 5, 6, 7}; for(int i = 0; i < 4; ++i) { size_t k = i + r.below(idx.size() - i); std::swap(idx[i], idx[k]); PARAMS[i] = ALL_PARAMS[idx[i]]; if(i < naddr && idx[i] >= 4) count("params.int_range_next_to_0_127"); } }
        int ops = (int)r.range(1, 30);
        // long histories: the realtime side's pending ring (32 entries) wraps after 32 learn cycles
        bool long_history = r.chance(0.04);
        if(long_history) { ops = (int)r.range(300, 700); count("histories.long"); }
        // controllers: plain numbers on channel 1, or the same few numbers on several channels / as NRPN
        int FULL[8] = {0, 1, 2, 3, 4, 5, 6, 7};
        if(r.chance(0.35)) {
            std::set<int> used;
            for(int i = 1; i <= 6; ++i) {
                int id;
                do { static const int PAR[] = {7, 10, 74}; static const int CH[] = {1, 2, 3, 16}; id = ((int)r.chance(0.2) << 18) + ((CH[r.below(4)] - 1) << 14) + PAR[r.below(3)]; } while(used.count(id));
                used.insert(id); FULL[i] = id;
            }
            count("histories.controllers_on_several_channels");
        }
        g_hist = fmt("addresses=%d controllers=%d:", naddr, nctl);
        for(int i = 0; i < naddr; ++i) g_hist += fmt(" %s:%c[%g,%g]", PARAMS[i].addr, PARAMS[i].type, PARAMS[i].mn, PARAMS[i].mx);
        g_hist += " ::";
        bool eager = r.chance(0.5);     // deliver wire messages promptly (else: delayed, interleaved with CCs)
        // scripted prefix (40% of the cases): learn a few bindings quickly, coarse and fine, then go random
        struct Forced { int k, ai, coarse, id, val; };
        std::deque<Forced> script;
        if(r.chance(0.4)) {
            int nb = (int)r.range(2, 5), next_id = 1;
            for(int b = 0; b < nb && next_id <= nctl; ++b) {
                int ai = (int)r.below(naddr);
                int coarse = b == 0 ? 1 : (int)r.chance(0.5);
                script.push_back({0, ai, coarse, 0, 0});
                script.push_back({18, 0, 0, 0, 0});                       // deliver watch (and a possible bind)
                script.push_back({18, 0, 0, 0, 0});
                script.push_back({5, 0, 0, next_id++, (int)r.range(0, 127)});   // a free controller arrives
                script.push_back({19, 0, 0, 0, 0});                       // non-realtime side serves the learn
                script.push_back({18, 0, 0, 0, 0});                       // bind delivered
                for(int c = 0; c < 2; ++c) script.push_back({5, 0, 0, (int)r.range(1, next_id - 1), (int)r.range(1, 127)});
            }
            ops += (int)script.size();
            count("cases.scripted_prefix");
        }
        for(int o = 0; o < ops && !g_failed; ++o) {
            int k = (int)r.below(20);
            if(eager && (!to_rt.empty() || !to_nrt.empty()) && r.chance(0.85)) k = to_nrt.empty() ? 18 : 19;
            Forced f{-1, 0, 0, 0, 0};
            if(!script.empty()) { f = script.front(); script.pop_front(); k = f.k; }
            if(k < 4) {
                int ai = f.k >= 0 ? f.ai : (int)r.below(naddr);
                bool coarse = f.k >= 0 ? f.coarse : r.chance(0.7);
                g_hist += fmt(" map(%s,%s)", PARAMS[ai].addr, coarse ? "coarse" : "fine");
                // model of map(): ignored if already queued; else unmap that half, queue, request a watch
                bool queued = false;
                for(auto &q : m.learn) if(q.first == ai && q.second == coarse) queued = true;
                if(!queued) {
                    int &slot = coarse ? m.coarse[ai] : m.fine[ai];
                    if(slot != -1) { kill_id(m.nrt_map, slot); slot = -1; count("ops.remap_of_bound_half"); }
                    m.learn.push_back({ai, coarse});
                }
                nrt.map(PARAMS[ai].addr, coarse);
                count("ops.map");
            } else if(k < 13) {
                int id = FULL[(int)r.below(nctl) + 1], val = (int)r.range(0, 127);
                if(f.k >= 0) { id = FULL[f.id]; val = f.val; }
                g_hist += fmt(" CC(%d,%d)", id, val);
                g_backend.clear();
                size_t nfront = to_nrt.size();
                rt.handleCC(id & 0x3fff, val, (char)(((id >> 14) & 0xf) + 1), (id >> 18) & 1);
                count("ops.cc");
                // expectation
                const Entry *e = 0;
                for(auto &x : m.rt_map) if(x.id == id) { e = &x; break; }
                if(e) {
                    count("cc.bound");
                    if(e->coarse) m.hi[e->ai] = val; else m.lo[e->ai] = val;
                    int v14 = (m.hi[e->ai] << 7) | m.lo[e->ai];
                    const PI &p = PARAMS[e->ai];
                    if(g_backend.size() != 1) { bad("bound_controller_message_count", std::to_string(g_backend.size()), "exactly 1"); break; }
                    const char *msg = g_backend[0].c_str();
                    if(strcmp(msg, p.addr)) { bad("wrong_address", msg, p.addr); break; }
                    char t = rtosc_type(msg, 0);
                    if(t != p.type) { bad("wrong_type", std::string(1, t), std::string(1, p.type)); break; }
                    double got = t == 'i' ? rtosc_argument(msg, 0).i : rtosc_argument(msg, 0).f;
                    if(got < p.mn - 1e-6 || got > p.mx + 1e-6) { bad("out_of_range", fmt("%s = %.9g", p.addr, got), fmt("[%g,%g]", p.mn, p.mx)); break; }
                    double ex;
                    if(p.type == 'i' && p.mn == 0 && p.mx == 127) ex = m.hi[e->ai];
                    else { float out = (float)(v14 / 16384.0 * (double)(float)(p.mx - p.mn) + (double)(float)p.mn); ex = p.type == 'i' ? (double)(int)out : (double)out; }
                    if(fabs(got - ex) > 1e-5 * (fabs(p.mx - p.mn) + 1)) { bad("wrong_value", fmt("%s = %.9g for 14-bit value %d (coarse %d fine %d)", p.addr, got, v14, m.hi[e->ai], m.lo[e->ai]), fmt("%.9g", ex)); break; }
                    if(m.fine[e->ai] != -1 && m.coarse[e->ai] != -1) count("cc.bound_14bit");
                    if(to_nrt.size() != nfront) { bad("bound_controller_asked_for_learn", "midi-use-CC sent", "nothing"); break; }
                } else {
                    if(!g_backend.empty()) { bad("unassigned_controller_drives_parameter", g_backend[0].c_str(), "no parameter message"); break; }
                    bool is_pending = std::find(m.pending.begin(), m.pending.end(), id) != m.pending.end();
                    bool expect_use = !is_pending && m.watch > 0 && m.pending.size() < 32;
                    if(!is_pending && m.watch > 0) { m.watch--; if(m.pending.size() < 32) m.pending.push_back(id); }
                    if(expect_use) {
                        count("cc.offered_for_learning");
                        if(to_nrt.size() != nfront + 1 || strcmp(to_nrt.back().c_str(), "/midi-use-CC") || rtosc_argument(to_nrt.back().c_str(), 0).i != id) { bad("free_controller_not_offered", fmt("%zu messages to the non-realtime side", to_nrt.size() - nfront), fmt("/midi-use-CC %d", id)); break; }
                    } else {
                        count("cc.ignored");
                        if(to_nrt.size() != nfront) { bad("unexpected_learn_offer", to_nrt.back().c_str(), "nothing"); break; }
                    }
                }
            } else if(k < 15) {
                int ai = (int)r.below(naddr);
                bool coarse = r.chance(0.7);
                g_hist += fmt(" unMap(%s,%s)", PARAMS[ai].addr, coarse ? "coarse" : "fine");
                int &slot = coarse ? m.coarse[ai] : m.fine[ai];
                if(slot != -1) { kill_id(m.nrt_map, slot); slot = -1; count("ops.unmap_effective"); }
                nrt.unMap(PARAMS[ai].addr, coarse);
                count("ops.unMap");
            } else if(k < 16 && r.chance(0.3)) {
                g_hist += " clear";
                m.learn.clear();
                for(int i = 0; i < 4; ++i) m.coarse[i] = m.fine[i] = -1;
                m.nrt_map.clear();
                nrt.clear();
                count("ops.clear");
            } else if(k % 2 == 0 ? !to_rt.empty() : to_nrt.empty() && !to_rt.empty()) {
                // deliver the head of the non-realtime -> realtime FIFO
                Wire w = to_rt.front();
                to_rt.pop_front();
                g_hist += w.is_bind ? " >bind" : " >watch";
                rtosc::RtData d;
                d.obj = &rt;
                rtosc::MidiMapperRT::ports.dispatch(w.msg.c_str() + strlen("/midi-learn/"), d);
                count(w.is_bind ? "wire.bind_delivered" : "wire.watch_delivered");
                if(w.is_bind) {
                    if(!m.pending.empty()) m.pending.pop_front();
                    // values persist per controller id half
                    int nhi[4] = {0, 0, 0, 0}, nlo[4] = {0, 0, 0, 0};
                    if(m.rt_has_storage)
                        for(auto &ne : w.snap.map)
                            for(auto &oe : m.rt_map)
                                if(ne.id == oe.id) { int v7 = oe.coarse ? m.hi[oe.ai] : m.lo[oe.ai]; (ne.coarse ? nhi : nlo)[ne.ai] = v7; }
                    if(m.rt_has_storage) for(int i = 0; i < 4; ++i) { m.hi[i] = nhi[i]; m.lo[i] = nlo[i]; }
                    m.rt_map = w.snap.map;
                    m.rt_has_storage = true;
                } else m.watch++;
            } else if(!to_nrt.empty()) {
                // deliver the head of the realtime -> non-realtime FIFO
                std::string msg = to_nrt.front();
                to_nrt.pop_front();
                int id = rtosc_argument(msg.c_str(), 0).i;
                g_hist += fmt(" <useCC(%d)", id);
                if(!m.learn.empty()) {
                    auto q = m.learn.front();
                    m.learn.pop_front();
                    m.nrt_map.push_back(Entry{id, q.second, q.first});
                    int &slot = q.second ? m.coarse[q.first] : m.fine[q.first];
                    if(q.second && slot != -1) kill_id(m.nrt_map, slot);
                    slot = id;
                    count("wire.learn_served");
                }
                nrt.useFreeID(id);
            } else { g_hist += " ."; continue; }
            // non-realtime state after every step
            if(g_args.verbose) fprintf(stderr, "STEP %s\n", g_hist.c_str());
            if(g_failed) break;
            if(nrt.learnQueue.size() != m.learn.size()) { bad("learn_queue_size", std::to_string(nrt.learnQueue.size()), std::to_string(m.learn.size())); break; }
            for(size_t i = 0; i < m.learn.size(); ++i)
                if(nrt.learnQueue[i].first != PARAMS[m.learn[i].first].addr || nrt.learnQueue[i].second != m.learn[i].second) { bad("learn_queue_order", nrt.learnQueue[i].first, PARAMS[m.learn[i].first].addr); break; }
            for(int i = 0; i < naddr && !g_failed; ++i) {
                if(nrt.getCoarse(PARAMS[i].addr) != m.coarse[i]) bad("coarse_binding", fmt("%s coarse=%d", PARAMS[i].addr, nrt.getCoarse(PARAMS[i].addr)), std::to_string(m.coarse[i]));
                if(nrt.getFine(PARAMS[i].addr) != m.fine[i]) bad("fine_binding", fmt("%s fine=%d", PARAMS[i].addr, nrt.getFine(PARAMS[i].addr)), std::to_string(m.fine[i]));
            }
        }
        describe_case(g_hist);
        distinct(hash_str(g_hist));
        sample(jstr(g_hist.substr(0, 300)));
    });
}
