// Reference matcher for rtosc port patterns, written from doc/Guide.adoc
// "Path Specifiers" and the statement of property C05 (declarative, with
// backtracking over {a,b} alternatives).  Shared by C04, C05, C09.
#pragma once
#include <string>
#include <vector>
#include <ctype.h>

namespace pat {

struct Item {
    enum Kind { LIT, ENUM, OPT } kind = LIT;
    std::string lit;               // LIT
    long n = 0;                    // ENUM: '#n'
    std::vector<std::string> alts; // OPT
};

struct Pattern {
    std::vector<Item> items;
    bool slash = false;                 // trailing '/'
    bool has_spec = false;
    std::vector<std::string> spec;      // type alternatives (after ':')
    std::string text() const
    {
        std::string s;
        for(auto &it : items) {
            if(it.kind == Item::LIT) s += it.lit;
            else if(it.kind == Item::ENUM) s += "#" + std::to_string(it.n);
            else { s += "{"; for(size_t i = 0; i < it.alts.size(); ++i) s += (i ? "," : "") + it.alts[i]; s += "}"; }
        }
        if(slash) s += "/";
        if(has_spec) for(auto &a : spec) s += ":" + a;
        return s;
    }
    std::string path_text() const { Pattern p = *this; p.has_spec = false; return p.text(); }
};

// all positions where items[k..] can end when started at addr[pos]
static inline void ends(const Pattern &p, size_t k, const std::string &a, size_t pos, std::vector<size_t> &out, bool first_fit)
{
    if(k == p.items.size()) { out.push_back(pos); return; }
    const Item &it = p.items[k];
    if(it.kind == Item::LIT) {
        if(a.compare(pos, it.lit.size(), it.lit) == 0 && pos + it.lit.size() <= a.size()) ends(p, k + 1, a, pos + it.lit.size(), out, first_fit);
    } else if(it.kind == Item::ENUM) {
        size_t e = pos;
        while(e < a.size() && isdigit((unsigned char)a[e])) ++e;
        if(e == pos) return;
        // decimal value of the maximal digit run (at most 9 digits are generated)
        unsigned long long v = 0;
        for(size_t i = pos; i < e; ++i) { v = v * 10 + (a[i] - '0'); if(v > 4000000000ull) v = 4000000000ull; }
        if((long long)v < it.n) ends(p, k + 1, a, e, out, first_fit);
    } else {
        for(auto &alt : it.alts) {
            if(a.compare(pos, alt.size(), alt) == 0 && pos + alt.size() <= a.size()) {
                ends(p, k + 1, a, pos + alt.size(), out, first_fit);
                if(first_fit) return; // model of a matcher that commits to the first fitting alternative
            }
        }
    }
}

// does the address match the path part?  On a match *consumed = bytes of the
// address the pattern itself covers (for '/' patterns: up to and including the '/')
static inline bool path_match(const Pattern &p, const std::string &addr, size_t *consumed = 0, bool first_fit = false)
{
    std::vector<size_t> e;
    ends(p, 0, addr, 0, e, first_fit);
    for(size_t pos : e) {
        if(p.slash) { if(pos < addr.size() && addr[pos] == '/') { if(consumed) *consumed = pos + 1; return true; } }
        else if(pos == addr.size()) { if(consumed) *consumed = pos; return true; }
    }
    return false;
}

// three-valued type verdict: 1 must match, 0 must not match, -1 not decided by the statement
static inline int type_verdict(const Pattern &p, const std::string &types)
{
    if(!p.has_spec) return 1;
    for(auto &a : p.spec) if(a == types) return 1;
    for(auto &a : p.spec) if(types.size() > a.size() && types.compare(0, a.size(), a) == 0) return -1;
    return 0;
}

} // namespace pat
