// The "zoo" application: fixed C++ structs whose port tables are rebuilt per
// case (names fixed, metadata / defaults / ranges / subsets / order generated),
// using the library's own macro callbacks.  Shared by C09 (runtime pruning),
// C12 and C13 (savefiles).
#pragma once
#include <deque>
#include <rtosc/ports.h>
#include <rtosc/port-sugar.h>
#include <rtosc/savefile.h>
#include "vh.h"

namespace zoo {
using vh::Rng;

struct DynPorts : rtosc::Ports {
    DynPorts() : Ports({}) {}
    void set(const std::vector<rtosc::Port> &p) { ports = p; refreshMagic(); }
};

// ---------------------------------------------------------------- runtime structs
 // a sub-object of every Leaf: its table entry "inner/" declares a dependency relative to the Leaf it sits in
struct Inner { int w; static DynPorts ports; };
struct Leaf {
    int preset;          // selects the defaults of a, b, arr
    int a;
    float b;
    unsigned char c;
    bool t;
    int o;
    char s[16];
    int arr[8];
    float farr[8];
    bool on;             // enables this object when referenced as "leaf/on" by the parent
    int mode, val;       // val is clamped to 0..10*(mode+1): depends on mode
    Inner inner;         // "inner/" depends on mode: a new mode re-initialises inner.w
    int bank, engine;    // mode depends on bank, bank depends on engine: a new engine re-initialises bank, a new bank re-initialises mode (and so on down)
    static DynPorts ports;
};
struct Mid {
    int en;              // enables "leaf/" (same level): a toggle (0/1) or, in some applications, an integer level (enabled iff != 0)
    Leaf leaf;
    Leaf many[3];
    Leaf *ptr;
    int x;
    static DynPorts ports;
};
struct Root {
    Mid mid;
    Leaf top;
    int vol;
    Leaf ptr_target;     // what mid.ptr points to (or NULL)
    static DynPorts ports;
};
DynPorts Inner::ports, Leaf::ports, Mid::ports, Root::ports;

// ---------------------------------------------------------------- per-case configuration
struct LeafCfg {
    // defaults; index = preset (2 presets)
    int a_def[2] = {0, 0}; bool a_depends = false;
    float b_def[2] = {0, 0}; bool b_depends = false;
    int arr_def[2][8] = {{0}, {0}}; bool arr_depends = false; bool arr_compressed_default = false;
    float farr_def[8] = {0};
    int c_def = 64, o_def = 0, val_def = 0, mode_def = 0, bank_def = 0, engine_def = 0, w_def = 0;
    bool t_def = false, on_def = true;
    std::string s_def = "";
    int a_min = -1000, a_max = 1000;
    float b_min = -100, b_max = 100;
    std::vector<std::string> opts = {"sine", "saw", "square"};
    // port name of the logical port "val" (depends on "mode"): "val", or a name that starts with its dependency's name
    bool colon_last = false;      // "mode:i:" / "x:i:" instead of "mode::i" / "x::i": the same alternatives (none, or one int) in the other order
    int preset_lo = 0;            // the preset selector takes the values preset_lo and preset_lo+1 (0/1, or -1/0: a negative selector)
    std::string val_name = "val";
    std::string pname(const std::string &n) const { return n == "val" ? val_name : n; }
    // which ports exist and in which order
    std::vector<std::string> order;
    bool has(const std::string &n) const { for(auto &x : order) if(x == n) return true; return false; }
};
struct Cfg {
    LeafCfg leaf;
    int mid_en_def = 1;
    bool en_is_int = false;      // the enabling port is an integer parameter ("en::i"), enabled iff its value is not 0
    int en_on_value = 1;         // the non-zero level used by the exhaustive state sweep (C09)
    int mid_x_def = 0, vol_def = 100;
    int enable_placement = 0;   // 0 none, 1 "leaf/" enabled by sibling "en", 2 "leaf/" enabled by "leaf/on", 3 both (two declarations with different targets)
    bool by_sibling() const { return enable_placement == 1 || enable_placement == 3; }
    bool by_self() const { return enable_placement == 2 || enable_placement == 3; }
    bool has_many = true, has_ptr = true, has_top = true;
    std::string en_name = "en";   // name of Mid's toggle: "en", or one that starts with the name of the sub-tree it enables ("leaf_on", "leafen")
    bool ptr_gated = false;       // "ptr/" (a pointer member) additionally carries rEnabledBy(<en_name>)
    std::deque<std::string> keep;   // metadata storage
};
static Cfg *G = nullptr;

static inline void reset_leaf(Leaf &l, const LeafCfg &c, int preset = 0)
{
    memset(&l, 0, sizeof l);
    l.preset = c.preset_lo + preset;     // `preset` is the index 0/1
    l.a = c.a_def[c.a_depends ? preset : 0];
    l.b = c.b_def[c.b_depends ? preset : 0];
    l.c = (unsigned char)c.c_def; l.t = c.t_def; l.o = c.o_def;
    strncpy(l.s, c.s_def.c_str(), 15);
    for(int i = 0; i < 8; ++i) { l.arr[i] = c.arr_def[c.arr_depends ? preset : 0][i]; l.farr[i] = c.farr_def[i]; }
    l.on = c.on_def; l.mode = c.mode_def; l.val = c.val_def; l.bank = c.bank_def; l.engine = c.engine_def; l.inner.w = c.w_def;
}
static inline void reset_root(Root &r, const Cfg &c)
{
    memset(&r, 0, sizeof r);
    r.vol = c.vol_def;
    r.mid.en = c.mid_en_def; r.mid.x = c.mid_x_def;
    reset_leaf(r.mid.leaf, c.leaf);
    for(auto &l : r.mid.many) reset_leaf(l, c.leaf);
    reset_leaf(r.top, c.leaf);
    reset_leaf(r.ptr_target, c.leaf);
    r.mid.ptr = &r.ptr_target;
}

// field-wise comparison of two leaves (strings as strings)
static inline std::string diff_leaf(const Leaf &x, const Leaf &y, const LeafCfg &c, const std::string &where)
{
    std::string d;
    auto has = [&](const char *n) { return c.has(n); };
    if(has("preset") && x.preset != y.preset) d += vh::fmt("%spreset %d!=%d ", where.c_str(), x.preset, y.preset);
    if(has("a") && x.a != y.a) d += vh::fmt("%sa %d!=%d ", where.c_str(), x.a, y.a);
    if(has("b") && memcmp(&x.b, &y.b, 4) && x.b != y.b) d += vh::fmt("%sb %a!=%a ", where.c_str(), x.b, y.b);
    if(has("c") && x.c != y.c) d += vh::fmt("%sc %d!=%d ", where.c_str(), x.c, y.c);
    if(has("t") && x.t != y.t) d += vh::fmt("%st %d!=%d ", where.c_str(), x.t, y.t);
    if(has("o") && x.o != y.o) d += vh::fmt("%so %d!=%d ", where.c_str(), x.o, y.o);
    if(has("s") && strcmp(x.s, y.s)) d += vh::fmt("%ss \"%s\"!=\"%s\" ", where.c_str(), vh::vis(x.s).c_str(), vh::vis(y.s).c_str());
    for(int i = 0; i < 8; ++i) {
        if(has("arr") && x.arr[i] != y.arr[i]) d += vh::fmt("%sarr%d %d!=%d ", where.c_str(), i, x.arr[i], y.arr[i]);
        if(has("farr") && memcmp(&x.farr[i], &y.farr[i], 4) && x.farr[i] != y.farr[i]) d += vh::fmt("%sfarr%d %a!=%a ", where.c_str(), i, x.farr[i], y.farr[i]);
    }
    if(has("on") && x.on != y.on) d += vh::fmt("%son %d!=%d ", where.c_str(), x.on, y.on);
    if(has("mode") && x.mode != y.mode) d += vh::fmt("%smode %d!=%d ", where.c_str(), x.mode, y.mode);
    if(has("inner") && x.inner.w != y.inner.w) d += vh::fmt("%sinner/w %d!=%d ", where.c_str(), x.inner.w, y.inner.w);
    if(has("bank") && x.bank != y.bank) d += vh::fmt("%sbank %d!=%d ", where.c_str(), x.bank, y.bank);
    if(has("engine") && x.engine != y.engine) d += vh::fmt("%sengine %d!=%d ", where.c_str(), x.engine, y.engine);
    if(has("val") && x.val != y.val) d += vh::fmt("%sval %d!=%d ", where.c_str(), x.val, y.val);
    return d;
}
static inline std::string diff_root(const Root &x, const Root &y, const Cfg &c)
{
    std::string d;
    if(x.vol != y.vol) d += vh::fmt("/vol %d!=%d ", x.vol, y.vol);
    if(x.mid.en != y.mid.en) d += vh::fmt("/mid/%s %d!=%d ", c.en_name.c_str(), x.mid.en, y.mid.en);
    if(x.mid.x != y.mid.x) d += vh::fmt("/mid/x %d!=%d ", x.mid.x, y.mid.x);
    d += diff_leaf(x.mid.leaf, y.mid.leaf, c.leaf, "/mid/leaf/");
    if(c.has_many) for(int i = 0; i < 3; ++i) d += diff_leaf(x.mid.many[i], y.mid.many[i], c.leaf, vh::fmt("/mid/many%d/", i));
    if(c.has_top) d += diff_leaf(x.top, y.top, c.leaf, "/top/");
    if(c.has_ptr && x.mid.ptr && y.mid.ptr) d += diff_leaf(*x.mid.ptr, *y.mid.ptr, c.leaf, "/mid/ptr/");
    return d;
}

// ---------------------------------------------------------------- metadata builders
struct Meta {
    std::string m;
    Meta &prop(const char *k) { m += ":"; m += k; m.push_back('\0'); return *this; }
    Meta &map(const std::string &k, const std::string &v) { m += ":" + k; m.push_back('\0'); m += "=" + v; m.push_back('\0'); return *this; }
};

#define rObject Inner
static std::function<void(const char *, rtosc::RtData &)> CB_w = rParamICb(w);
#undef rObject
#define rObject Leaf
static const rtosc::Port::MetaContainer *dummy_meta_ptr = nullptr;
// the preset port: setting it re-initialises the ports that declare "default depends" on it
static void leaf_preset_cb(const char *msg, rtosc::RtData &d)
{
    Leaf *obj = (Leaf *)d.obj;
    if(!*rtosc_argument_string(msg)) { d.reply(d.loc, "i", obj->preset); return; }
    const LeafCfg &c = G->leaf;
    int p = rtosc_argument(msg, 0).i - c.preset_lo;
    if(p < 0) p = 0; if(p > 1) p = 1;
    obj->preset = c.preset_lo + p;
    if(c.a_depends) obj->a = c.a_def[p];
    if(c.b_depends) obj->b = c.b_def[p];
    if(c.arr_depends) for(int i = 0; i < 8; ++i) obj->arr[i] = c.arr_def[p][i];
    d.broadcast(d.loc, "i", p);
}
// val depends on mode: it is clamped to 0..10*(mode+1)
static void leaf_val_cb(const char *msg, rtosc::RtData &d)
{
    Leaf *obj = (Leaf *)d.obj;
    if(!*rtosc_argument_string(msg)) { d.reply(d.loc, "i", obj->val); return; }
    int v = rtosc_argument(msg, 0).i, mx = 10 * (obj->mode + 1);
    obj->val = v < 0 ? 0 : v > mx ? mx : v;
    d.broadcast(d.loc, "i", obj->val);
}
// what a new mode does: it selects the first preset and re-initialises everything that depends on the preset; val is re-clamped
static void apply_mode(Leaf *obj, int v)
{
    const LeafCfg &c = G->leaf;
    if(v != obj->mode) {
        obj->preset = c.preset_lo;
        if(c.a_depends) obj->a = c.a_def[0];
        if(c.b_depends) obj->b = c.b_def[0];
        if(c.arr_depends) for(int i = 0; i < 8; ++i) obj->arr[i] = c.arr_def[0][i];
        obj->inner.w = c.w_def;      // declared on the "inner/" entry: depends on mode
    }
    obj->mode = v;
    if(obj->val > 10 * (obj->mode + 1)) obj->val = 10 * (obj->mode + 1);
}
// mode: 0..9; changing it re-clamps val, so every reachable state satisfies val <= 10*(mode+1)
static void leaf_mode_cb(const char *msg, rtosc::RtData &d)
{
    Leaf *obj = (Leaf *)d.obj;
    if(!*rtosc_argument_string(msg)) { d.reply(d.loc, "i", obj->mode); return; }
    int v = rtosc_argument(msg, 0).i;
    v = v < 0 ? 0 : v > 9 ? 9 : v;
    apply_mode(obj, v);
    d.broadcast(d.loc, "i", obj->mode);
}
// bank: 0..3; a new bank re-initialises the mode (declared: mode depends on bank)
static void reinit_below_bank(Leaf *obj)
{
    // the mode returns to its default and everything the mode governs is re-initialised, whatever the mode was
    obj->mode = G->leaf.mode_def == 0 ? 1 : 0;     // (so that apply_mode sees a change)
    apply_mode(obj, G->leaf.mode_def);
}
static void apply_bank(Leaf *obj, int v)
{
    if(v != obj->bank) reinit_below_bank(obj);
    obj->bank = v;
}
static void leaf_bank_cb(const char *msg, rtosc::RtData &d)
{
    Leaf *obj = (Leaf *)d.obj;
    if(!*rtosc_argument_string(msg)) { d.reply(d.loc, "i", obj->bank); return; }
    int v = rtosc_argument(msg, 0).i;
    apply_bank(obj, v < 0 ? 0 : v > 3 ? 3 : v);
    d.broadcast(d.loc, "i", obj->bank);
}
// engine: 0..3; a new engine re-initialises the bank (declared: bank depends on engine)
static void leaf_engine_cb(const char *msg, rtosc::RtData &d)
{
    Leaf *obj = (Leaf *)d.obj;
    if(!*rtosc_argument_string(msg)) { d.reply(d.loc, "i", obj->engine); return; }
    int v = rtosc_argument(msg, 0).i;
    v = v < 0 ? 0 : v > 3 ? 3 : v;
    if(v != obj->engine) { obj->bank = G->leaf.bank_def; reinit_below_bank(obj); }
    obj->engine = v;
    d.broadcast(d.loc, "i", obj->engine);
}
static std::function<void(const char *, rtosc::RtData &)> CB_inner = rRecurCb(inner);
static std::function<void(const char *, rtosc::RtData &)> CB_a = rParamICb(a), CB_b = rParamFCb(b), CB_c = rParamCb(c), CB_t = rToggleCb(t), CB_o = rOptionCb(o),
    CB_s = rStringCb(s, 16), CB_arr = rArrayICb(arr), CB_farr = rArrayFCb(farr), CB_on = rToggleCb(on), CB_mode = rParamICb(mode);
// the enabling toggle of a Leaf (rSelf(.., rEnabledBy(on))): switching it on re-initialises the object
static void leaf_on_cb(const char *msg, rtosc::RtData &d)
{
    Leaf *obj = (Leaf *)d.obj;
    const char *args = rtosc_argument_string(msg);
    if(!*args) { d.reply(d.loc, obj->on ? "T" : "F"); return; }
    bool v = rtosc_argument(msg, 0).T;
    if(v && !obj->on && G->by_self()) { reset_leaf(*obj, G->leaf); }
    obj->on = v;
    d.broadcast(d.loc, args);
}
#undef rObject
#define rObject Mid
// the enabling toggle of "leaf/": switching it on re-initialises the sub-object
static void mid_en_cb(const char *msg, rtosc::RtData &d)
{
    Mid *obj = (Mid *)d.obj;
    const char *args = rtosc_argument_string(msg);
    if(!*args) { if(G->en_is_int) d.reply(d.loc, "i", obj->en); else d.reply(d.loc, obj->en ? "T" : "F"); return; }
    int v = G->en_is_int ? rtosc_argument(msg, 0).i : (args[0] == 'T');
    if(v && !obj->en && G->by_sibling()) reset_leaf(obj->leaf, G->leaf);   // only when the coupling is declared (rEnabledBy)
    obj->en = v;
    if(G->en_is_int) d.broadcast(d.loc, "i", v); else d.broadcast(d.loc, args);
}
static std::function<void(const char *, rtosc::RtData &)> CB_leaf = rRecurCb(leaf), CB_many = rRecursCb(many, 3), CB_ptr = rRecurpCb(ptr), CB_x = rParamICb(x);
#undef rObject
#define rObject Root
static std::function<void(const char *, rtosc::RtData &)> CB_mid = rRecurCb(mid), CB_top = rRecurCb(top), CB_vol = rParamICb(vol);
#undef rObject

static inline std::string fl(float f) { return vh::fmt("%.6g", f) + (vh::fmt("%.6g", f).find_first_of(".e") == std::string::npos ? "." : ""); }

// builds the three port tables for a configuration
static inline void build(Cfg &c, Rng &r)
{
    G = &c;
    auto keep = [&](const std::string &s) -> const char * { c.keep.push_back(s); return c.keep.back().c_str(); };
    LeafCfg &L = c.leaf;
    std::vector<rtosc::Port> lp;
    auto arr_text = [&](const int *v) {
        bool flat = true; for(int i = 1; i < 8; ++i) if(v[i] != v[0]) flat = false;
        if(flat && L.arr_compressed_default) return vh::fmt("[8x%d]", v[0]);
        std::string t = "["; for(int i = 0; i < 8; ++i) t += (i ? " " : "") + std::to_string(v[i]); return t + "]"; };
    for(auto &n : L.order) {
        Meta m;
        m.prop("parameter");
        const std::string k0 = "default " + std::to_string(L.preset_lo), k1 = "default " + std::to_string(L.preset_lo + 1);
        if(n == "preset") { m.map("default", std::to_string(L.preset_lo)).map("depends", "mode,"); lp.push_back({"preset::i", keep(m.m), 0, leaf_preset_cb}); }
        else if(n == "a") {
            m.map("min", std::to_string(L.a_min)).map("max", std::to_string(L.a_max));
            m.map("enabled by", "on").map("depends", "on,");     // declared twice (the object's toggle re-initialises it)
            if(L.a_depends) m.map("default depends", "preset").map(k0, std::to_string(L.a_def[0])).map(k1, std::to_string(L.a_def[1]));
            else m.map("default", std::to_string(L.a_def[0]));
            lp.push_back({"a::i", keep(m.m), 0, CB_a});
        } else if(n == "b") {
            m.map("min", fl(L.b_min)).map("max", fl(L.b_max));
            if(L.b_depends) m.map("default depends", "preset").map(k0, fl(L.b_def[0])).map("default", fl(L.b_def[1]));   // preset 1 through the plain default
            else m.map("default", fl(L.b_def[0]));
            lp.push_back({"b::f", keep(m.m), 0, CB_b});
        } else if(n == "c") { m.map("min", "0").map("max", "127").map("default", std::to_string(L.c_def)); lp.push_back({"c::c", keep(m.m), 0, CB_c}); }
        else if(n == "t") { m.map("default", L.t_def ? "true" : "false"); lp.push_back({"t::T:F", keep(m.m), 0, CB_t}); }
        else if(n == "o") { m.prop("enumerated"); for(size_t i = 0; i < L.opts.size(); ++i) m.map(vh::fmt("map %zu", i), L.opts[i]); m.map("default", L.opts[L.o_def]); lp.push_back({"o::i:c:S", keep(m.m), 0, CB_o}); }
        else if(n == "s") { std::string q = "\""; for(char ch : L.s_def) { if(ch == '"' || ch == '\\') q += '\\'; if(ch == '\n') q += "\\n"; else q += ch; } q += "\""; m.map("default", q); m.map("length", "16"); lp.push_back({"s::s", keep(m.m), 0, CB_s}); }
        else if(n == "arr") {
            if(L.arr_depends) m.map("default depends", "preset").map(k0, arr_text(L.arr_def[0])).map(k1, arr_text(L.arr_def[1]));
            else m.map("default", arr_text(L.arr_def[0]));
            lp.push_back({"arr#8::i", keep(m.m), 0, CB_arr});
        } else if(n == "farr") { std::string t = "["; for(int i = 0; i < 8; ++i) t += (i ? " " : "") + fl(L.farr_def[i]); m.map("default", t + "]"); lp.push_back({"farr#8::f", keep(m.m), 0, CB_farr}); }
        else if(n == "on") { m.map("default", L.on_def ? "true" : "false"); lp.push_back({"on::T:F", keep(m.m), 0, leaf_on_cb}); }
        else if(n == "inner") { Meta mi; mi.map("depends", "mode,").map("documentation", "inner"); lp.push_back({"inner/", keep(mi.m), &Inner::ports, CB_inner}); }
        else if(n == "bank") { m.map("min", "0").map("max", "3").map("default", std::to_string(L.bank_def)); if(L.has("engine")) m.map("depends", "engine,"); lp.push_back({"bank::i", keep(m.m), 0, leaf_bank_cb}); }
        else if(n == "engine") { m.map("min", "0").map("max", "3").map("default", std::to_string(L.engine_def)); lp.push_back({"engine::i", keep(m.m), 0, leaf_engine_cb}); }
        else if(n == "mode") { m.map("min", "0").map("max", "9").map("default", std::to_string(L.mode_def)); if(L.has("bank")) m.map("depends", "bank,"); lp.push_back({L.colon_last ? "mode:i:" : "mode::i", keep(m.m), 0, leaf_mode_cb}); }
        else if(n == "val") { m.map("depends", "mode,").map("default", std::to_string(L.val_def)); lp.push_back({keep(L.val_name + "::i"), keep(m.m), 0, leaf_val_cb}); }
    }
    if(c.by_self()) {
        // rSelf(Leaf, rEnabledBy(on)): every Leaf object is enabled by its own toggle
        Meta m; m.prop("internal").map("class", "Leaf").map("enabled by", "on").map("documentation", "port metadata");
        lp.insert(lp.begin() + (long)r.below(lp.size() + 1), rtosc::Port{"self:", keep(m.m), 0, [](const char *, rtosc::RtData &d) { d.reply(d.loc, "b", sizeof(d.obj), &d.obj); }});
    }
    { Meta mw; mw.prop("parameter").map("min", "-100").map("max", "100").map("default", std::to_string(L.w_def)); std::vector<rtosc::Port> ip; ip.push_back({"w::i", keep(mw.m), 0, CB_w}); Inner::ports.set(ip); }
    Leaf::ports.set(lp);
    std::vector<rtosc::Port> mp;
    std::vector<std::string> morder = {"en", "leaf", "x"};
    if(c.has_many) morder.push_back("many");
    if(c.has_ptr) morder.push_back("ptr");
    for(size_t i = morder.size(); i > 1; --i) std::swap(morder[i - 1], morder[r.below(i)]);
    for(auto &n : morder) {
        Meta m;
        if(n == "en") { m.prop("parameter").map("default", c.en_is_int ? std::to_string(c.mid_en_def) : std::string(c.mid_en_def ? "true" : "false")); mp.push_back({keep(c.en_name + (c.en_is_int ? "::i" : "::T:F")), keep(m.m), 0, mid_en_cb}); }
        else if(n == "x") { m.prop("parameter").map("default", std::to_string(c.mid_x_def)); mp.push_back({c.leaf.colon_last ? "x:i:" : "x::i", keep(m.m), 0, CB_x}); }
        else if(n == "leaf") { if(c.by_sibling()) m.map("enabled by", c.en_name); m.map("documentation", "leaf"); mp.push_back({"leaf/", keep(m.m), &Leaf::ports, CB_leaf}); }
        else if(n == "many") { m.map("documentation", "many"); mp.push_back({"many#3/", keep(m.m), &Leaf::ports, CB_many}); }
        else if(n == "ptr") { if(c.ptr_gated) m.map("enabled by", c.en_name); m.map("documentation", "ptr"); mp.push_back({"ptr/", keep(m.m), &Leaf::ports, CB_ptr}); }
    }
    Mid::ports.set(mp);
    std::vector<rtosc::Port> rp;
    std::vector<std::string> rorder = {"mid", "vol"};
    if(c.has_top) rorder.push_back("top");
    for(size_t i = rorder.size(); i > 1; --i) std::swap(rorder[i - 1], rorder[r.below(i)]);
    for(auto &n : rorder) {
        Meta m;
        if(n == "vol") { m.prop("parameter").map("min", "0").map("max", "127").map("default", std::to_string(c.vol_def)); rp.push_back({"vol::i", keep(m.m), 0, CB_vol}); }
        else if(n == "mid") { m.map("documentation", "mid"); rp.push_back({"mid/", keep(m.m), &Mid::ports, CB_mid}); }
        else { m.map("documentation", "top"); rp.push_back({"top/", keep(m.m), &Leaf::ports, CB_top}); }
    }
    Root::ports.set(rp);
}

static inline void gen_cfg(Cfg &c, Rng &r)
{
    LeafCfg &L = c.leaf;
    L.a_depends = r.chance(0.5); L.b_depends = r.chance(0.4); L.arr_depends = r.chance(0.4);
    L.arr_compressed_default = r.chance(0.5);
    L.a_min = r.chance(0.5) ? -1000 : 0; L.a_max = 1000;
    for(int p = 0; p < 2; ++p) {
        L.a_def[p] = (int)r.range(L.a_min, 127);
        L.b_def[p] = r.chance(0.3) ? 0.f : (float)r.range(-40, 40) / 4;
        bool flat = r.chance(0.5); int base = (int)r.range(-5, 5);
        for(int i = 0; i < 8; ++i) L.arr_def[p][i] = flat ? base : (int)r.range(-5, 5);
    }
    { bool flat = r.chance(0.5); float base = (float)r.range(-8, 8) / 2; for(int i = 0; i < 8; ++i) L.farr_def[i] = flat ? base : (float)r.range(-8, 8) / 2; }
    L.c_def = (int)r.range(0, 127); L.t_def = r.chance(0.5); L.on_def = r.chance(0.6);
    L.o_def = (int)r.below(3); L.mode_def = (int)r.below(3); L.val_def = (int)r.range(0, 10);
    static const char *S[] = {"", "init", "a b", "x%y", "q\"uote", "back\\slash", "two\nlines"};
    L.s_def = S[r.below(7)];
    // subset and order of leaf ports ("preset" is needed when something depends on it; same for "mode"/"val")
    std::vector<std::string> all = {"preset", "a", "b", "c", "t", "o", "s", "arr", "farr", "on", "mode", "val", "bank", "engine", "inner"};
    L.w_def = (int)r.range(-3, 3);
    bool deep_chain = r.chance(0.5);      // a -> preset -> mode -> bank -> engine
    L.bank_def = (int)r.below(2); L.engine_def = (int)r.below(2);
    for(size_t i = all.size(); i > 1; --i) std::swap(all[i - 1], all[r.below(i)]);
    for(auto &n : all) {
        bool must = n == "preset" || n == "on" || n == "mode";
        // char-typed parameters (rParam, "::c") are a known finding: rarely included
        if(n == "c") { if(r.chance(0.04)) L.order.push_back(n); continue; }
        if(n == "bank" || n == "engine") { if(deep_chain) L.order.push_back(n); continue; }
        if(n == "inner") { if(r.chance(0.5)) L.order.push_back(n); continue; }
        if(must || r.chance(0.75)) L.order.push_back(n);
    }
    c.mid_en_def = r.chance(0.7);
    c.en_is_int = r.chance(0.3);
    { static const int LV[] = {1, 2, 255, 256, 512, -256, 65536, -1, 257, 1024}; c.en_on_value = c.en_is_int ? LV[r.below(10)] : 1; if(c.en_is_int && c.mid_en_def) c.mid_en_def = LV[r.below(10)]; }
    c.mid_x_def = (int)r.range(-5, 5); c.vol_def = (int)r.range(0, 127);
    c.enable_placement = (int)r.below(4);
    c.has_many = r.chance(0.7); c.has_ptr = r.chance(0.5); c.has_top = r.chance(0.6);
    { static const char *EN[] = {"en", "en", "e", "leaf_on", "leafen", "e"}; c.en_name = EN[r.below(6)]; }
    { static const char *VN[] = {"val", "val", "mode_val", "modeval"}; L.val_name = VN[r.below(4)]; }
    L.preset_lo = r.chance(0.3) ? -1 : 0;
    L.colon_last = r.chance(0.3);
    c.ptr_gated = c.has_ptr && r.chance(0.4);
}

} // namespace zoo
