// C09 — walking a port tree enumerates exactly its dispatchable addresses.
// Mode "tree": generated static trees (treegen.h): multiset of (port, address)
// vs. reference expansion, name buffer restoration, dispatch of every address.
// Mode "zoo": walk with a runtime object over all states of the enabling
// toggles / pointers of the zoo application (zoo.h).
#include "treegen.h"
#include "zoo.h"
using namespace vh;

struct Rec { const rtosc::Port *port; std::string addr; std::string rel; void *runtime; };
static void walker_cb(const rtosc::Port *p, const char *name, const char *old_end, const rtosc::Ports &, void *data, void *runtime)
{
    ((std::vector<Rec> *)data)->push_back(Rec{p, name, old_end ? old_end : "", runtime});
}

static std::string osc_message(const std::string &addr, const std::string &types)
{
    std::string m = addr;
    m.append(4 - m.size() % 4, '\0');
    m += "," + types;
    m.append(4 - m.size() % 4, '\0');
    for(char t : types) if(t == 'i' || t == 'f' || t == 's' || t == 'c') m.append(4, '\0');
    return m;
}

static void run_tree(Rng &r, uint64_t index)
{
    tg::GenOpts o;
    o.max_ports = 10; o.max_depth = 4; o.p_enum = 0.3; o.p_sub = 0.3; o.allow_derived = false; o.p_default = 0; o.p_dup = 0; o.multi_component = true; o.max_enum = 4; o.unique_names = true;
    if(r.chance(0.25)) { o.max_enum = 16; o.max_depth = 3; }   // two-digit indices
    tg::Tree t;
    if(index % 64 == 1) {
        // three-digit indices (100..) on a leaf and on a sub-tree port
        int N1 = (int)r.range(99, 131), N2 = (int)r.range(9, 12);
        t.tables.emplace_back(new tg::Table);
        tg::Table *sub = t.tables.back().get();
        t.tables.emplace_back(new tg::Table);
        tg::Table *tb = t.tables.back().get();
        auto add = [&](tg::Table *owner, const std::string &name, const std::string &spec, tg::Table *subt) {
            std::unique_ptr<tg::PortDesc> pd(new tg::PortDesc);
            pd->id = t.next_id++; pd->owner = owner; pd->name = name; pd->spec = spec; pd->full = name + spec; pd->sub = subt;
            pd->pattern = tg::parse_name(pd->name, pd->spec);
            pd->index_in_table = (int)owner->ports.size();
            if(t.all_ports.size() <= (size_t)pd->id) t.all_ports.resize(pd->id + 1);
            t.all_ports[pd->id] = pd.get();
            owner->ports.push_back(std::move(pd));
        };
        add(sub, fmt("v#%d", N2), "::i", nullptr);
        add(sub, "w", "", nullptr);
        add(tb, fmt("g#%d", N1), "::i", nullptr);
        add(tb, fmt("p#%d/", r.chance(0.5) ? N2 : 101), "", sub);
        t.root = tb;
        tg::realize(t, tb, r, o);
        count("tree.three_digit_indices");
    } else if(index == 0) {
        // dedicated witness: a leaf whose name carries two enumerations (upstream: "#if 0" in test/walk-ports.cpp)
        t.tables.emplace_back(new tg::Table);
        tg::Table *tb = t.tables.back().get();
        std::unique_ptr<tg::PortDesc> pd(new tg::PortDesc);
        pd->id = t.next_id++; pd->owner = tb; pd->name = "a#3/b#2/c"; pd->spec = "::i"; pd->full = pd->name + pd->spec;
        pd->pattern = tg::parse_name(pd->name, pd->spec);
        t.all_ports.push_back(pd.get());
        tb->ports.push_back(std::move(pd));
        t.root = tb;
        tg::realize(t, tb, r, o);
    } else
        tg::gen_tree(t, r, o);
    std::string tdesc = tg::render_table(t.root);
    std::vector<std::string> tags;
    for(auto *pd : t.all_ports) if(pd && !pd->sub && std::count(pd->name.begin(), pd->name.end(), '#') >= 2) tags.push_back("leaf_with_two_enumerations");
    describe_case("tree " + tdesc, tags);
    distinct(hash_str(tdesc));
    sample(jstr(tdesc.substr(0, 300)));
    std::vector<tg::Walked> ref;
    tg::ref_walk(t.root, "", ref);
    if(ref.size() > 3000) { count("tree.skipped_too_large"); return; }
    for(int start = 0; start < 2; ++start) {
        // name buffer: zeroed, optionally holding a prefix the walk must preserve
        std::string prefix = start ? "/pre/fix/" : "";
        size_t bsz = 1024;
        char *buf = (char *)calloc(bsz, 1);
        strcpy(buf, prefix.c_str());
        std::vector<Rec> got;
        rtosc::walk_ports(t.root->lib, buf, bsz, &got, walker_cb);
        count("tree.walks");
        std::string after = buf;
        std::string want = start ? prefix : "/";
        if(after != want) fail("name_buffer_not_restored", tags, "tree " + tdesc, vis(after), want);
        // multiset comparison
        std::string base = start ? prefix : "/";
        std::multiset<std::pair<const rtosc::Port *, std::string>> g, e;
        for(auto &x : got) g.insert({x.port, x.addr});
        for(auto &w : ref) e.insert({&(*w.pd->owner->lib)[(unsigned)w.pd->index_in_table], base + w.addr});
        count("tree.addresses_reported", got.size());
        if(g != e) {
            std::string miss, extra;
            for(auto &x : e) if(!g.count(x) || g.count(x) < e.count(x)) { miss = x.second; break; }
            for(auto &x : g) if(!e.count(x) || e.count(x) < g.count(x)) { extra = x.second; break; }
            fail("walk_enumeration", tags, "tree " + tdesc, fmt("%zu reported; e.g. extra/duplicate '%s', missing '%s'", got.size(), extra.c_str(), miss.c_str()), fmt("%zu addresses, each exactly once", ref.size()));
            free(buf);
            return;
        }
        // every reported address, sent as a message, reaches the port it was reported with
        if(!start) {
            size_t stride = got.size() > 150 ? got.size() / 150 + 1 : 1;
            for(size_t i = 0; i < got.size(); i += stride) {
                const tg::PortDesc *pd = 0;
                for(auto *q : t.all_ports) if(q && &(*q->owner->lib)[(unsigned)q->index_in_table] == got[i].port) pd = q;
                std::string types = pd && pd->pattern.has_spec ? pd->pattern.spec[0] : std::string("i");
                std::string m = osc_message(got[i].addr, types);
                rtosc::RtData d;
                d.obj = tg::root_token();
                t.log.clear();
                t.root->lib->dispatch(m.c_str(), d, true);
                count("tree.dispatched_back");
                int hits = 0; bool right = false;
                for(auto &le : t.log) if(le.id >= 0) { ++hits; if(pd && le.id == pd->id) right = true; }
                if(hits != 1 || !right) fail("reported_address_not_dispatchable", tags, "tree " + tdesc + " address=" + got[i].addr + " types=," + types, fmt("%d callbacks, %s", hits, right ? "incl. the reported port" : "not the reported port"), "exactly the reported port");
            }
        }
        free(buf);
    }
    // other walker options: only restoration and memory safety are checked
    for(int k = 0; k < 3; ++k) {
        bool expand = k != 0, ranges = k == 2;
        char *buf = (char *)calloc(1024, 1);
        std::vector<Rec> got;
        rtosc::walk_ports(t.root->lib, buf, 1024, &got, walker_cb, expand, NULL, ranges);
        count("tree.walks_other_options");
        if(strcmp(buf, "/")) fail("name_buffer_not_restored", tags, "tree " + tdesc + fmt(" expand_bundles=%d ranges=%d", expand, ranges), vis(buf), "/");
        free(buf);
    }
}

// ---------------------------------------------------------------- zoo: runtime pruning
static void run_zoo(Rng &r)
{
    using namespace zoo;
    Cfg c;
    gen_cfg(c, r);
    build(c, r);
    Root root;
    reset_root(root, c);
    // all states of the toggles / pointers that decide pruning
    // bits: mid.en, mid.leaf.on, many0.on, many1.on, many2.on, top.on, ptr null, ptr_target.on
    int nbits = 8;
    unsigned states = 1u << nbits;
    std::string cdesc = fmt("zoo placement=%d many=%d ptr=%d%s top=%d toggle=%s%s leaf ports:", c.enable_placement, c.has_many, c.has_ptr, c.ptr_gated ? "(enabled by toggle)" : "", c.has_top, c.en_name.c_str(), c.en_is_int ? fmt("(integer level, on=%d)", c.en_on_value).c_str() : "");
    for(auto &n : c.leaf.order) cdesc += " " + n;
    describe_case(cdesc);
    distinct(hash_str(cdesc));
    sample(jstr(cdesc), 4);
    for(unsigned s = 0; s < states; ++s) {
        root.mid.en = (s & 1) ? c.en_on_value : 0; root.mid.leaf.on = s & 2; root.mid.many[0].on = s & 4; root.mid.many[1].on = s & 8; root.mid.many[2].on = s & 16;
        root.top.on = s & 32; root.mid.ptr = (s & 64) ? nullptr : &root.ptr_target; root.ptr_target.on = s & 128;
        char *buf = (char *)calloc(1024, 1);
        std::vector<Rec> got;
        rtosc::walk_ports(&Root::ports, buf, 1024, &got, walker_cb, true, &root);
        count("zoo.walks");
        std::string sdesc = cdesc + fmt(" state: en=%d leaf.on=%d many.on=%d%d%d top.on=%d ptr=%s ptr.on=%d", root.mid.en, root.mid.leaf.on, root.mid.many[0].on, root.mid.many[1].on, root.mid.many[2].on, root.top.on, root.mid.ptr ? "set" : "NULL", root.ptr_target.on);
        if(strcmp(buf, "/")) fail("name_buffer_not_restored", {}, sdesc, vis(buf), "/");
        // expected set of leaf addresses
        std::multiset<std::string> e, g;
        auto leaf = [&](const std::string &pre, const Leaf &l, bool subtree_enabled) {
            if(!subtree_enabled) return;
            bool self_on = !c.by_self() || l.on;
            for(auto &n : c.leaf.order) {
                if(!self_on && n != "on") continue;     // a disabled object still presents its enabling toggle
                if(n == "inner") e.insert(pre + "inner/w");
                else if(n == "arr" || n == "farr") for(int i = 0; i < 8; ++i) e.insert(pre + n + std::to_string(i));
                else e.insert(pre + c.leaf.pname(n));
            }
            if(c.by_self() && self_on) e.insert(pre + "self");
        };
        e.insert("/vol"); e.insert("/mid/" + c.en_name); e.insert("/mid/x");
        leaf("/mid/leaf/", root.mid.leaf, !c.by_sibling() || root.mid.en);
        if(c.has_many) for(int i = 0; i < 3; ++i) leaf(fmt("/mid/many%d/", i), root.mid.many[i], true);
        if(c.has_top) leaf("/top/", root.top, true);
        if(c.has_ptr) leaf("/mid/ptr/", root.ptr_target, root.mid.ptr != nullptr && (!c.ptr_gated || root.mid.en));
        if(c.ptr_gated && !root.mid.ptr && root.mid.en) count("zoo.null_pointer_with_toggle_on");
        if(c.ptr_gated && root.mid.ptr && !root.mid.en) count("zoo.pruned_pointer_by_toggle");
        if(c.en_name != "en" && c.by_sibling()) count("zoo.toggle_name_starts_with_subtree_name");
        if(c.en_is_int && (c.by_sibling() || c.ptr_gated) && root.mid.en && (root.mid.en & 0xff) == 0) count("zoo.enabled_by_integer_level_multiple_of_256");
        for(auto &x : got) g.insert(x.addr);
        count("zoo.addresses_reported", got.size());
        if(c.by_sibling() && !root.mid.en) count("zoo.pruned_by_sibling_toggle");
        if(c.by_self() && !root.mid.leaf.on) count("zoo.pruned_by_own_toggle");
        if(c.has_ptr && !root.mid.ptr) count("zoo.pruned_null_pointer");
        if(g != e) {
            std::string miss, extra;
            for(auto &x : e) if(g.count(x) < e.count(x)) { miss = x; break; }
            for(auto &x : g) if(e.count(x) < g.count(x)) { extra = x; break; }
            fail("walk_with_runtime", {fmt("placement_%d", c.enable_placement)}, sdesc, fmt("%zu reported; extra/duplicate '%s', missing '%s'", got.size(), extra.c_str(), miss.c_str()), fmt("%zu addresses", e.size()));
            free(buf);
            break;
        }
        // the same states seen from Mid::ports below a caller-supplied location of 5 or of about 270 characters
        if((s & 32u) == 0 && g == e) {
            for(int longp = 0; longp < 2; ++longp) {
                std::string P = longp ? "/" + std::string(130, 'p') + "/" + std::string(132, 'q') + "/mid/" : "/mid/";
                char *b3 = (char *)calloc(2048, 1);
                strcpy(b3, P.c_str());
                std::vector<Rec> got3;
                rtosc::walk_ports(&Mid::ports, b3, 2048, &got3, walker_cb, true, &root.mid);
                count(longp ? "zoo.walks_below_long_location" : "zoo.walks_below_short_location");
                std::multiset<std::string> e3, g3;
                for(auto &x : e) if(x.compare(0, 5, "/mid/") == 0) e3.insert(P + x.substr(5));
                for(auto &x : got3) g3.insert(x.addr);
                if(strcmp(b3, P.c_str())) fail("name_buffer_not_restored", {}, sdesc + fmt(" walk of Mid::ports below a location of %zu characters", P.size()), vis(std::string(b3).substr(0, 80)), "the location");
                if(g3 != e3) {
                    std::string miss, extra;
                    for(auto &x : e3) if(g3.count(x) < e3.count(x)) { miss = x; break; }
                    for(auto &x : g3) if(e3.count(x) < g3.count(x)) { extra = x; break; }
                    if(extra.size() > 40) extra = "..." + extra.substr(extra.size() - 40);
                    if(miss.size() > 40) miss = "..." + miss.substr(miss.size() - 40);
                    fail("walk_below_location", {fmt("placement_%d", c.enable_placement)}, sdesc + fmt(" walk of Mid::ports below a location of %zu characters", P.size()), fmt("%zu reported; extra/duplicate '%s', missing '%s'", got3.size(), extra.c_str(), miss.c_str()), fmt("%zu addresses", e3.size()));
                }
                free(b3);
            }
        }
        // a walk that starts at the object's own table, below a caller-supplied prefix
        if((s & ~(2u | 32u)) == 0) {      // only the object's own toggle matters here
            for(int which = 0; which < (c.has_top ? 2 : 1); ++which) {
                const Leaf &lf = which ? root.top : root.mid.leaf;
                std::string pre = which ? "/top/" : "/mid/leaf/";
                char *b2 = (char *)calloc(1024, 1);
                strcpy(b2, pre.c_str());
                std::vector<Rec> got2;
                rtosc::walk_ports(&Leaf::ports, b2, 1024, &got2, walker_cb, true, (void *)&lf);
                count("zoo.walks_from_object_table");
                std::multiset<std::string> e2, g2;
                bool self_on = !c.by_self() || lf.on;
                for(auto &n : c.leaf.order) {
                    if(!self_on && n != "on") continue;
                    if(n == "inner") e2.insert(pre + "inner/w");
                    else if(n == "arr" || n == "farr") for(int i = 0; i < 8; ++i) e2.insert(pre + n + std::to_string(i));
                    else e2.insert(pre + c.leaf.pname(n));
                }
                if(c.by_self() && self_on) e2.insert(pre + "self");
                if(c.by_self() && !self_on) count("zoo.object_table_walk_of_disabled_object");
                for(auto &x : got2) g2.insert(x.addr);
                if(strcmp(b2, pre.c_str())) fail("name_buffer_not_restored", {}, sdesc + " walk from the object's table below " + pre, vis(b2), pre);
                if(g2 != e2) {
                    std::string miss, extra;
                    for(auto &x : e2) if(g2.count(x) < e2.count(x)) { miss = x; break; }
                    for(auto &x : g2) if(e2.count(x) < g2.count(x)) { extra = x; break; }
                    fail("walk_from_object_table", {fmt("placement_%d", c.enable_placement)}, sdesc + " walk of Leaf::ports below " + pre, fmt("%zu reported; extra/duplicate '%s', missing '%s'", got2.size(), extra.c_str(), miss.c_str()), fmt("%zu addresses", e2.size()));
                }
                free(b2);
            }
        }
        // the runtime object handed to the walker is the object that owns the port
        for(auto &x : got) {
            void *want = nullptr;
            if(x.addr.compare(0, 10, "/mid/leaf/") == 0) want = &root.mid.leaf; else if(x.addr.compare(0, 9, "/mid/many") == 0) want = &root.mid.many[x.addr[9] - '0'];
            else if(x.addr.compare(0, 9, "/mid/ptr/") == 0) want = root.mid.ptr; else if(x.addr.compare(0, 5, "/top/") == 0) want = &root.top; else if(x.addr.compare(0, 5, "/mid/") == 0) want = &root.mid; else want = &root;
            if(want && x.addr.find("/inner/") != std::string::npos) want = &((Leaf *)want)->inner;
            if(x.runtime != want) { fail("walker_runtime_object", {fmt("placement_%d", c.enable_placement)}, sdesc + " address=" + x.addr, fmt("%p", x.runtime), fmt("%p (the object the address belongs to)", want)); break; }
        }
        free(buf);
    }
    g_evaluations += states - 1;
}

int main(int argc, char **argv)
{
    parse_args(argc, argv);
    bool zoo_mode = g_args.mode == "zoo";
    return main_loop(argc, argv, 0xC09, [zoo_mode](uint64_t i, Rng &r) { if(zoo_mode) run_zoo(r); else run_tree(r, i); });
}
