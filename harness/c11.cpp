// C11 — the scanner accepts the documented text syntax and canonicalises it.
// Constructive oracle: values are chosen first, then a spelling from the manual's
// grammar for each, then whitespace/comment layout; the expected values are known.
#include "avgen.h"
#include <rtosc/pretty-format.h>
using namespace vh;
using av::av_t;
using av::XV;

struct Tok { std::string text; std::vector<XV> exp; std::vector<std::string> tags; char type = 0; };

static av::Store *ST;

static XV xs(const av_t &a) { XV x; x.v = a; return x; }

static std::string esc_string(const std::string &s, bool chr)
{
    std::string o;
    for(char c : s) {
        switch(c) {
            case '\a': o += "\\a"; break; case '\b': o += "\\b"; break; case '\t': o += "\\t"; break; case '\n': o += "\\n"; break;
            case '\v': o += "\\v"; break; case '\f': o += "\\f"; break; case '\r': o += "\\r"; break; case '\\': o += "\\\\"; break;
            case '"': o += chr ? "\"" : "\\\""; break;
            case '\'': o += chr ? "\\'" : "'"; break;
            default: o += c;
        }
    }
    return o;
}

static Tok gen_scalar_tok(Rng &r, char t)
{
    Tok k;
    k.type = t;
    av_t a = av::mk(t);
    switch(t) {
        case 'i': {
            int form = (int)r.below(5);
            if(form == 3) { uint32_t u = r.chance(0.5) ? (uint32_t)r.range(0, 0xffff) : (uint32_t)r.next(); a.val.i = (int32_t)u; k.text = fmt("0x%x", u); k.tags.push_back("hex_int"); }
            else if(form == 4 && r.chance(0.02)) { int v = (int)r.range(8, 4095); a.val.i = v; k.text = fmt("0%o", v); k.tags.push_back("octal_int"); }
            else { a.val.i = r.chance(0.2) ? (int32_t)r.next() : (int32_t)r.range(-1000, 1000); k.text = fmt("%d", a.val.i) + (form == 1 ? "i" : ""); }
            break; }
        case 'h': {
            if(r.chance(0.3)) { uint64_t u = r.chance(0.5) ? 0xffffffffffull : (r.next() >> (r.below(40))); if(u > 0x7fffffffffffffffull) u >>= 1; a.val.h = (int64_t)u; k.text = fmt("0x%llxh", (unsigned long long)u); k.tags.push_back("hex_int"); }
            else { a.val.h = r.chance(0.3) ? (int64_t)r.next() : r.range(-100000, 100000); k.text = fmt("%lldh", (long long)a.val.h); }
            break; }
        case 'f': {
            int form = (int)r.below(7);
            static const char *DEC[] = {"1.", "1e10", "1e-10", "0.5", "-2.25", "123.456", "3.", "10.0e2", "-0.0", ".5"};
            if(form <= 1) { const char *d = DEC[r.below(10)]; a.val.f = strtof(d, 0); k.text = d; if(form == 1) k.text += "f"; }
            else if(form == 2) { int v = (int)r.range(0, 99); a.val.f = (float)v; k.text = fmt("%df", v); }
            else if(form == 3) { int m = (int)r.range(1, 15), e = (int)r.range(-4, 4); a.val.f = ldexpf((float)m, e); k.text = fmt("0x%xp%+d", m, e); k.tags.push_back("hex_float"); }
            else {
                // decimal with the exact value in parentheses
                uint32_t u; do { u = (uint32_t)r.next(); } while((u & 0x7f800000u) == 0x7f800000u);
                if(r.chance(0.5)) { float q = (float)r.range(-1000, 1000) / 8; memcpy(&u, &q, 4); }
                memcpy(&a.val.f, &u, 4);
                k.text = fmt("%.*f", (int)r.range(0, 6), a.val.f);
                if(k.text.find('.') == std::string::npos) k.text += ".";     // the decimal part must read as a float
                k.text += fmt(" (%a)", a.val.f);
                k.tags.push_back("exact_value_in_parentheses");
            }
            break; }
        case 'd': {
            int form = (int)r.below(4);
            static const char *DEC[] = {"10", "1.5", "1e100", "-0.25", "3.", "1e-300"};
            if(form <= 1) { const char *d = DEC[r.below(6)]; a.val.d = strtod(d, 0); k.text = std::string(d) + "d"; }
            else { uint64_t u; do { u = r.next(); } while((u & 0x7ff0000000000000ull) == 0x7ff0000000000000ull); if(r.chance(0.5)) { double q = (double)r.range(-1000, 1000) / 16; memcpy(&u, &q, 8); } memcpy(&a.val.d, &u, 8);
                   k.text = fmt("%.*fd (%a)", (int)r.range(1, 6), a.val.d, a.val.d); k.tags.push_back("exact_value_in_parentheses"); }
            break; }
        case 'c': { static const int32_t C[] = {'a', 'Z', '#', '\n', '\t', '\'', '\\', '0', ' ', '%', '"'}; a.val.i = r.chance(0.5) ? C[r.below(11)] : (int32_t)r.range(0x21, 0x7e); k.text = "'" + esc_string(std::string(1, (char)a.val.i), true) + "'"; break; }
        case 's': {
            std::string s = av::gen_text(r, 40);
            a.val.s = ST->str(s);
            if(r.chance(0.25) && s.size() >= 2) {
                // concatenated strings: "abc"\ <newline> "def"
                size_t cut = (size_t)r.range(1, (int64_t)s.size() - 1);
                k.text = "\"" + esc_string(s.substr(0, cut), false) + "\"\\" + (r.chance(0.6) ? "\n  " : r.chance(0.6) ? " " : "") + "\"" + esc_string(s.substr(cut), false) + "\"";   // (also no blank at all behind the backslash)
                k.tags.push_back("concatenated_string");
            } else k.text = "\"" + esc_string(s, false) + "\"";
            break; }
        case 'S': {
            if(r.chance(0.6)) { std::string s = av::gen_ident(r); static const char *KW[] = {"true", "false", "nil", "inf", "now", "immediately", "MIDI", "BLOB"}; for(auto w : KW) if(s == w) s += "_"; a.val.s = ST->str(s); k.text = s; }
            else { std::string s = av::gen_text(r, 30); a.val.s = ST->str(s); k.text = "\"" + esc_string(s, false) + "\"S"; k.tags.push_back("quoted_symbol"); }
            break; }
        case 't': {
            if(r.chance(0.4)) { a.val.t = 1; k.text = r.chance(0.5) ? "now" : "immediately"; break; }
            struct tm tm; memset(&tm, 0, sizeof tm);
            tm.tm_year = (int)r.range(1971, 2099) - 1900; tm.tm_mon = (int)r.below(12); tm.tm_mday = (int)r.range(1, 28);
            int form = (int)r.below(4);   // date, date hh:mm, date hh:mm:ss, date hh:mm:ss.frac
            if(form >= 1) { tm.tm_hour = (int)r.below(24); tm.tm_min = (int)r.below(60); }
            if(form >= 2) tm.tm_sec = (int)r.below(60);
            uint64_t fr = 0; std::string fs;
            if(form == 3) { static const struct { const char *s; uint32_t f; } F[] = {{".5", 0x80000000u}, {".25", 0x40000000u}, {".125", 0x20000000u}, {".75", 0xc0000000u}, {".0625", 0x10000000u}}; int q = (int)r.below(5); fr = F[q].f; fs = F[q].s; }
            char buf[64];
            if(form == 0) strftime(buf, sizeof buf, "%Y-%m-%d", &tm); else if(form == 1) strftime(buf, sizeof buf, "%Y-%m-%d %H:%M", &tm); else strftime(buf, sizeof buf, "%Y-%m-%d %H:%M:%S", &tm);
            tm.tm_isdst = -1;
            time_t tt = timegm(&tm);
            a.val.t = ((uint64_t)tt << 32) | fr;
            k.text = std::string(buf) + fs;
            k.tags.push_back(form == 3 ? "time_fraction" : "timestamp");
            break; }
        case 'm': for(int q = 0; q < 4; ++q) a.val.m[q] = (uint8_t)r.next(); k.text = fmt("MIDI [0x%02x 0x%02x 0x%02x 0x%02x]", a.val.m[0], a.val.m[1], a.val.m[2], a.val.m[3]); break;
        case 'r': a.val.i = (int32_t)r.next(); k.text = fmt("#%08x", (uint32_t)a.val.i); break;
        case 'b': { int n = (int)r.range(0, 6); std::string b; for(int q = 0; q < n; ++q) b += (char)r.next(); a.val.b.len = n; a.val.b.data = ST->blob(b); k.text = fmt("BLOB [%d", n); for(int q = 0; q < n; ++q) k.text += fmt(" 0x%02x", (uint8_t)b[q]); k.text += "]"; break; }
        case 'T': a.val.T = 1; k.text = "true"; break;
        case 'F': k.text = "false"; break;
        case 'N': k.text = "nil"; break;
        case 'I': k.text = "inf"; break;
    }
    k.exp.push_back(xs(a));
    return k;
}

// "a b ... c" or "b ... c": returns text and expected expansion
static Tok gen_range_tok(Rng &r, bool endless_allowed, char forced_t = 0, int force_with_a = -1, int force_endless = -1)
{
    Tok k;
    char t = forced_t ? forced_t : "cihfd"[r.below(5)];
    k.type = t;
    auto num = [&](double v) -> av_t { av_t a = av::mk(t); switch(t) { case 'c': case 'i': a.val.i = (int32_t)v; break; case 'h': a.val.h = (int64_t)v; break; case 'f': a.val.f = (float)v; break; case 'd': a.val.d = v; break; } return a; };
    auto spell = [&](const av_t &a) -> std::string {
        switch(t) { case 'c': return "'" + esc_string(std::string(1, (char)a.val.i), true) + "'"; case 'i': return fmt("%d", a.val.i); case 'h': return fmt("%lldh", (long long)a.val.h);
                    case 'f': return fmt("%.4f", a.val.f); default: return fmt("%.4fd", a.val.d); } };
    bool with_a = force_with_a >= 0 ? force_with_a : r.chance(0.6);
    bool endless = force_endless >= 0 ? force_endless : endless_allowed && r.chance(0.4);
    double d, b;
    int n = (int)r.range(1, 6);                       // number of steps from b to c
    if(t == 'c') { d = with_a ? (double)r.range(1, 3) : 1; b = (double)r.range('A', 'a'); if(!with_a && r.chance(0.5)) d = -1; }
    else if(t == 'f' || t == 'd') { d = with_a ? (double)r.range(1, 6) * 0.25 * (r.chance(0.5) ? 1 : -1) : (r.chance(0.5) ? 1 : -1); b = (double)r.range(-8, 8) * 0.5; }
    else { d = with_a ? (double)(r.range(1, 7) * (r.chance(0.5) ? 1 : -1)) : (r.chance(0.5) ? 1 : -1); b = (double)r.range(-30, 30);
           // 64-bit ranges whose step does not fit 32 bits
           if(t == 'h' && with_a && r.chance(0.2)) { static const double D[] = {3000000000.0, 4294967296.0, 2147483648.0, 5000000000.0, 1099511627776.0}; d = D[r.below(5)] * (r.chance(0.5) ? 1 : -1); k.tags.push_back("range_h_wide_step"); } }
    double a0 = b - d, c = b + n * d;
    if(with_a) { k.text = spell(num(a0)) + " "; k.exp.push_back(xs(num(a0))); }
    k.text += spell(num(b)) + " ... ";
    if(endless) {
        XV x; x.v = av::mk('?'); x.inf = true; x.inf_has_delta = with_a; x.inf_delta = num(d); x.inf_start = num(b);
        k.exp.push_back(x);
        k.tags.push_back(with_a ? "endless_range_with_delta" : "endless_range_deltaless");
    } else {
        k.text += spell(num(c));
        for(int i = 0; i <= n; ++i) k.exp.push_back(xs(num(b + i * d)));
        k.tags.push_back(with_a ? "range_with_delta" : "range_unit_step");
    }
    k.tags.push_back(std::string("range_") + t);
    return k;
}

// "b1 ... c1 b2 ... c2": the last value of the first range is the left neighbour ("a") of the second
// (upstream's own test: "1 3 ... 11 13 ... 19")
static Tok gen_range_chain_tok(Rng &r)
{
    char t = "cihfd"[r.below(5)];
    Tok k = gen_range_tok(r, false, t, -1, 0);
    const XV &last = k.exp.back();
    double c1 = t == 'f' ? last.v.val.f : t == 'd' ? last.v.val.d : t == 'h' ? (double)last.v.val.h : (double)last.v.val.i;
    auto num = [&](double v) -> av_t { av_t a = av::mk(t); switch(t) { case 'c': case 'i': a.val.i = (int32_t)v; break; case 'h': a.val.h = (int64_t)v; break; case 'f': a.val.f = (float)v; break; case 'd': a.val.d = v; break; } return a; };
    auto spell = [&](const av_t &a) -> std::string {
        switch(t) { case 'c': return "'" + esc_string(std::string(1, (char)a.val.i), true) + "'"; case 'i': return fmt("%d", a.val.i); case 'h': return fmt("%lldh", (long long)a.val.h);
                    case 'f': return fmt("%.4f", a.val.f); default: return fmt("%.4fd", a.val.d); } };
    double d = (t == 'f' || t == 'd') ? (double)r.range(1, 6) * 0.25 : (double)r.range(1, 4);
    if(r.chance(0.5) && t != 'c') d = -d;
    int n = (int)r.range(1, 5);
    double b2 = c1 + d, c2 = b2 + n * d;
    if(t == 'c' && (c2 > 0x7e || b2 < 0x20)) return k;   // stays a single range
    k.text += " " + spell(num(b2)) + " ... " + spell(num(c2));
    for(int i = 0; i <= n; ++i) k.exp.push_back(xs(num(b2 + i * d)));
    k.tags.push_back("range_chain");
    return k;
}

// a progression written out value by value ("0 2 3 4 5 6"), optionally behind an unrelated value of its type:
// plain to scan, but printing the scanned values compresses it
static Tok gen_spelled_progression_tok(Rng &r)
{
    char t = "cih"[r.below(3)];
    Tok k; k.type = t;
    auto num = [&](long v) -> av_t { av_t a = av::mk(t); if(t == 'h') a.val.h = v; else a.val.i = (int32_t)v; return a; };
    auto spell = [&](const av_t &a) -> std::string { return t == 'c' ? "'" + esc_string(std::string(1, (char)a.val.i), true) + "'" : t == 'i' ? fmt("%d", a.val.i) : fmt("%lldh", (long long)a.val.h); };
    int n = (int)r.range(5, 8);
    long d = t == 'c' ? 1 : (r.chance(0.6) ? (r.chance(0.5) ? 1 : -1) : (long)r.range(-3, 3));
    if(!d) d = 1;
    long b = t == 'c' ? (long)r.range('A', 'a') : (long)r.range(-20, 20);
    if(r.chance(0.25)) {
        // a range in front whose FIRST value is where the progression starts (its last value is the real left neighbour)
        int m = (int)r.range(2, 5); long dd = t == 'c' ? 1 : (r.chance(0.5) ? 1 : -1);
        k.text = spell(num(b)) + " ... " + spell(num(b + m * dd)) + " ";
        for(int i = 0; i <= m; ++i) k.exp.push_back(xs(num(b + i * dd)));
        k.tags.push_back("range_unit_step"); k.tags.push_back("progression_behind_range_with_same_start");
    }
    else if(r.chance(0.6)) { long u = b + (r.chance(0.5) ? -2 * d - 1 : 5 * d + 3); if(t == 'c') u = 'z'; k.text = spell(num(u)) + " "; k.exp.push_back(xs(num(u))); k.tags.push_back("unrelated_value_before_progression"); }
    for(int i = 0; i < n; ++i) { k.text += (i ? " " : "") + spell(num(b + i * d)); k.exp.push_back(xs(num(b + i * d))); }
    k.tags.push_back("spelled_progression");
    return k;
}

static Tok gen_tok(Rng &r, int depth, char forced_type = 0, bool in_array = false, bool last_in_array = false);

static Tok gen_array_tok(Rng &r, int depth)
{
    Tok k;
    k.type = 'a';
    XV x; x.is_arr = true;
    char t = "ihfdcsSbmrtT"[r.below(12)];
    int n = r.chance(0.1) ? 0 : (int)r.range(1, 5);
    k.text = "[";
    if(strchr("cihfd", t) && r.chance(0.08)) {
        // the manual's "[ 0.1 1 ... ]": an endless range whose left neighbour has another type is delta-less
        int m = (int)r.range(1, 3);
        for(int i = 0; i < m; ++i) { Tok e = gen_scalar_tok(r, t); k.text += (i ? " " : (r.chance(0.3) ? " " : "")) + e.text; x.elems.insert(x.elems.end(), e.exp.begin(), e.exp.end()); k.tags.insert(k.tags.end(), e.tags.begin(), e.tags.end()); }
        char t2; do t2 = "cihfd"[r.below(5)]; while(t2 == t);
        Tok e = gen_range_tok(r, true, t2, 0, 1);
        k.text += " " + e.text;
        x.elems.insert(x.elems.end(), e.exp.begin(), e.exp.end());
        k.text += r.chance(0.3) ? " ]" : "]";
        k.exp.push_back(x);
        k.tags.push_back("array");
        k.tags.push_back("array_endless_range_of_other_type");
        return k;
    }
    for(int i = 0; i < n; ++i) {
        bool last = i == n - 1;
        Tok e;
        // a range without its own left neighbour "a" would take the previous element for it: only at the start
        if(strchr("cihfd", t) && r.chance(0.3)) {
            e = gen_range_tok(r, last);
            bool has_a = std::find(e.tags.begin(), e.tags.end(), "range_with_delta") != e.tags.end() || std::find(e.tags.begin(), e.tags.end(), "endless_range_with_delta") != e.tags.end();
            if(e.type != t || (i > 0 && !has_a) || (i > 0 && k.text.find("...") != std::string::npos)) e = gen_tok(r, depth + 1, t, true, last);
        }
        else e = gen_tok(r, depth + 1, t == 'T' ? (r.chance(0.5) ? 'T' : 'F') : t, true, last);
        k.text += (i ? " " : (r.chance(0.3) ? " " : "")) + e.text;
        x.elems.insert(x.elems.end(), e.exp.begin(), e.exp.end());
        k.tags.insert(k.tags.end(), e.tags.begin(), e.tags.end());
        if(!e.exp.empty() && e.exp.back().inf) break;     // an endless range ends the array
    }
    k.text += r.chance(0.3) ? " ]" : "]";
    k.exp.push_back(x);
    k.tags.push_back("array");
    return k;
}

static Tok gen_tok(Rng &r, int depth, char forced_type, bool in_array, bool last_in_array)
{
    (void)last_in_array;
    if(forced_type) {
        if(!in_array || r.chance(0.85)) return gen_scalar_tok(r, forced_type);
        // NxA inside an array keeps the element type
        Tok a = gen_scalar_tok(r, forced_type);
        int n = (int)r.range(1, 7);
        Tok k; k.type = forced_type; k.text = fmt("%dx", n) + a.text;
        for(int i = 0; i < n; ++i) k.exp.insert(k.exp.end(), a.exp.begin(), a.exp.end());
        k.tags = a.tags; k.tags.push_back("multiplier");
        return k;
    }
    int q = (int)r.below(20);
    if(q < 1) return gen_spelled_progression_tok(r);
    if(q < 12) return gen_scalar_tok(r, "ihfdcsStmrbTFNI"[r.below(15)]);
    if(q < 15) return r.chance(0.25) ? gen_range_chain_tok(r) : gen_range_tok(r, false);
    if(q < 17 && depth < 1) return gen_array_tok(r, depth);
    // NxA: A is any element except a range
    Tok a = (depth < 1 && r.chance(0.25)) ? gen_array_tok(r, depth + 1) : gen_scalar_tok(r, "ihfdcsStmrbTFNI"[r.below(15)]);
    int n = (int)r.range(1, 9);
    Tok k; k.type = a.type; k.text = fmt("%dx", n) + a.text;
    for(int i = 0; i < n; ++i) k.exp.insert(k.exp.end(), a.exp.begin(), a.exp.end());
    k.tags = a.tags; k.tags.push_back("multiplier");
    return k;
}

static std::string layout(Rng &r, const std::vector<Tok> &toks, bool plain)
{
    std::string s;
    auto filler = [&](bool need_space) {
        std::string f;
        int n = plain ? 0 : (int)r.below(4);
        bool has_ws = false;
        for(int i = 0; i < n; ++i) {
            switch(r.below(4)) {
                case 0: f += " "; has_ws = true; break; case 1: f += "\n"; has_ws = true; break; case 2: f += "\t"; has_ws = true; break;
                default: f += (has_ws || !need_space ? "" : " ") + std::string("% a comment 1 2 ... [\n"); has_ws = true; break;
            }
        }
        if(need_space && !has_ws) f = " " + f;
        return f;
    };
    // insertions only BETWEEN values (the statement's quantifier); none before the first or after the last
    for(size_t i = 0; i < toks.size(); ++i) { if(i) s += filler(true); s += toks[i].text; }
    return s;
}

struct Scanned { bool ok = false; std::vector<av_t> av; std::vector<XV> xv; int count = 0; std::string why; };
static std::vector<char> g_strbuf[3];
static Scanned scan_text(const std::string &text, int which)
{
    Scanned sc;
    char *t = (char *)malloc(text.size() + 1);
    memcpy(t, text.c_str(), text.size() + 1);
    sc.count = rtosc_count_printed_arg_vals(t);
    if(sc.count < 0) { sc.why = fmt("checker rejects (returned %d)", sc.count); free(t); return sc; }
    sc.av.assign((size_t)sc.count + 1, av::mk(0));
    sc.av[sc.count].type = '!';
    g_strbuf[which].assign(1 << 14, 0);
    size_t rd = rtosc_scan_arg_vals(t, sc.av.data(), (size_t)sc.count, g_strbuf[which].data(), g_strbuf[which].size());
    if(sc.av[sc.count].type != '!') { sc.why = "scanner wrote more values than the checker counted"; free(t); return sc; }
    sc.av.resize(sc.count);
    // everything behind the consumed part must be whitespace or comments
    size_t p = rd;
    bool rest_ok = true, in_comment = false;
    for(; p < text.size(); ++p) { char ch = text[p]; if(in_comment) { if(ch == '\n') in_comment = false; } else if(ch == '%') in_comment = true; else if(!isspace((unsigned char)ch)) { rest_ok = false; break; } }
    if(rd > text.size() || !rest_ok) { sc.why = fmt("scanner consumed %zu of %zu bytes", rd, text.size()); free(t); return sc; }
    if(!av::expand(sc.av.data(), sc.av.size(), sc.xv)) { sc.why = "scanned list malformed"; free(t); return sc; }
    sc.ok = true;
    free(t);
    return sc;
}

int main(int argc, char **argv)
{
    return main_loop(argc, argv, 0xC11, [](uint64_t, Rng &r) {
        av::Store st; ST = &st;
        std::vector<Tok> toks;
        int n = (int)r.range(1, 6);
        size_t nvals = 0;
        for(int i = 0; i < n && nvals < 10; ++i) {
            Tok k = gen_tok(r, 0);
            // the manual forbids overlapping ranges: a range may not directly follow a value of its own type
            // that would act as its "a" (left of left hand side), nor another range
            if(!toks.empty() && k.text.find("...") != std::string::npos) {
                const Tok &p = toks.back();
                bool p_mult = std::find(p.tags.begin(), p.tags.end(), "multiplier") != p.tags.end();
                // (an array, repeated or not, hides its elements from a following range)
                if(p.type == 'a' && p.text.find("...") == std::string::npos) { if(p_mult) count("syntax.range_behind_repeated_array"); else count("syntax.range_behind_array"); }
                else if(p.text.find("...") != std::string::npos || p_mult || p.type == k.type) { --i; if(r.chance(0.3)) break; continue; }
            }
            nvals += k.exp.size();
            toks.push_back(k);
        }
        if(toks.empty()) return;
        std::vector<XV> exp;
        std::vector<std::string> tags;
        for(auto &k : toks) { exp.insert(exp.end(), k.exp.begin(), k.exp.end()); tags.insert(tags.end(), k.tags.begin(), k.tags.end()); }
        std::sort(tags.begin(), tags.end()); tags.erase(std::unique(tags.begin(), tags.end()), tags.end());
        std::string plain = layout(r, toks, true), fancy = layout(r, toks, false), fancy2 = layout(r, toks, false);
        std::string desc = "sentence=<" + vis(plain.substr(0, 500)) + ">";
        describe_case(desc + " layout=<" + vis(fancy.substr(0, 300)) + ">", tags);
        distinct(hash_str(plain));
        sample(jstr(vis(plain.substr(0, 200))));
        for(auto &t : tags) count("syntax." + t);
        count("sentences");
        Scanned a = scan_text(plain, 0);
        if(!a.ok) { fail("plain_sentence", tags, desc, a.why, "accepted, consumed, counted consistently"); return; }
        std::string why;
        if(!av::same_xv(exp, a.xv, &why)) { fail("values_denoted", tags, desc, why + " scanned=" + av::render(a.av.data(), a.av.size()), "the values the spelling denotes"); return; }
        // layout variants: whitespace and comments change nothing
        for(const std::string *l : {&fancy, &fancy2}) {
            Scanned b = scan_text(*l, 1);
            std::string d2 = desc + " layout=<" + vis(l->substr(0, 400)) + ">";
            count("layouts");
            if(!b.ok) { fail("layout_variant", tags, d2, b.why, "accepted like the plain sentence"); return; }
            if(b.count != a.count) { fail("layout_changes_count", tags, d2, std::to_string(b.count), std::to_string(a.count)); return; }
            if(!av::same_xv(a.xv, b.xv, &why)) { fail("layout_changes_values", tags, d2, why, "equal values"); return; }
        }
        // canonicalisation: print the scanned values, scan again, equal values
        {
            static std::vector<char> buf(1 << 16);
            buf[0] = ' ';
            // default print options (the statement speaks of "printing those values"); option sweeps are C10's subject
            size_t w = rtosc_print_arg_vals(a.av.data(), a.av.size(), buf.data() + 1, buf.size() - 1, NULL, 0);
            std::string printed(buf.data() + 1);
            count("reprints");
            std::string d3 = desc + " printed=<" + vis(printed.substr(0, 400)) + ">";
            if(w != printed.size()) { fail("reprint_length", tags, d3, fmt("%zu vs strlen %zu", w, printed.size()), "equal"); return; }
            Scanned c = scan_text(printed, 2);
            if(!c.ok) { fail("reprint_rescan", tags, d3, c.why, "accepted"); return; }
            if(!av::same_xv(a.xv, c.xv, &why)) { fail("reprint_changes_values", tags, d3, why + " rescanned=" + av::render(c.av.data(), c.av.size()), "equal values"); return; }
            // the same with other precisions and line lengths
            rtosc_print_options po;
            po.lossless = true; po.floating_point_precision = (int)r.range(0, 9); po.sep = " "; po.linelength = r.chance(0.5) ? 80 : (int)r.range(12, 120);
            po.compress_ranges = true;      // (writing explicit range objects out is outside the statement: see DESIGN section 9, observations)
            size_t w2 = rtosc_print_arg_vals(a.av.data(), a.av.size(), buf.data() + 1, buf.size() - 1, &po, 0);
            std::string printed2(buf.data() + 1);
            count("reprints_with_options");
            std::string d4 = desc + fmt(" options{prec=%d line=%d compress=%d} printed=<", po.floating_point_precision, po.linelength, po.compress_ranges) + vis(printed2.substr(0, 400)) + ">";
            if(w2 != printed2.size()) { fail("reprint_length", tags, d4, fmt("%zu vs strlen %zu", w2, printed2.size()), "equal"); return; }
            Scanned c2 = scan_text(printed2, 2);
            if(!c2.ok) { fail("reprint_rescan", tags, d4, c2.why, "accepted"); return; }
            if(!av::same_xv(a.xv, c2.xv, &why)) { fail("reprint_changes_values", tags, d4, why + " rescanned=" + av::render(c2.av.data(), c2.av.size()), "equal values"); return; }
        }
    });
}
