// Common harness machinery: PRNG, argument parsing, event log, crash beacon,
// watchdog, statistics, guard-page buffers.  See DESIGN.md section 3.3.
#pragma once
#include <stdint.h>
#include <stdarg.h>
#include <stdio.h>
#include <stdlib.h>
#include <string.h>
#include <signal.h>
#include <unistd.h>
#include <fcntl.h>
#include <time.h>
#include <sys/mman.h>
#include <pthread.h>
#include <string>
#include <memory>
#include <vector>
#include <map>
#include <unordered_set>
#include <atomic>
#include <functional>

#if defined(__has_feature)
#  if __has_feature(address_sanitizer) || __has_feature(thread_sanitizer)
#    define VH_CLANG_SANITIZER 1
#  endif
#endif
#ifndef VH_CLANG_SANITIZER
#  define VH_CLANG_SANITIZER 0
#endif

namespace vh {

// ---------------------------------------------------------------- PRNG
static inline uint64_t splitmix(uint64_t &s)
{
    uint64_t z = (s += 0x9e3779b97f4a7c15ULL);
    z = (z ^ (z >> 30)) * 0xbf58476d1ce4e5b9ULL;
    z = (z ^ (z >> 27)) * 0x94d049bb133111ebULL;
    return z ^ (z >> 31);
}
static inline uint64_t mix(uint64_t a, uint64_t b)
{
    uint64_t s = a * 0x9e3779b97f4a7c15ULL ^ (b + 0x7f4a7c15ULL);
    splitmix(s);
    return splitmix(s);
}
static inline uint64_t hash_bytes(const void *p, size_t n, uint64_t h = 1469598103934665603ULL)
{
    const unsigned char *c = (const unsigned char *)p;
    for(size_t i = 0; i < n; ++i) { h ^= c[i]; h *= 1099511628211ULL; }
    return h;
}
static inline uint64_t hash_str(const std::string &s, uint64_t h = 1469598103934665603ULL)
{ return hash_bytes(s.data(), s.size(), h); }

struct Rng {
    uint64_t s;
    explicit Rng(uint64_t seed = 0) : s(seed) {}
    uint64_t next() { return splitmix(s); }
    // uniform in [0,n)
    uint64_t below(uint64_t n) { return n ? next() % n : 0; }
    int64_t range(int64_t lo, int64_t hi) { return lo + (int64_t)below((uint64_t)(hi - lo + 1)); }
    bool chance(double p) { return (next() >> 11) * (1.0 / 9007199254740992.0) < p; }
    double unit() { return (next() >> 11) * (1.0 / 9007199254740992.0); }
    template <class T> const T &pick(const std::vector<T> &v) { return v[below(v.size())]; }
    template <class T, size_t N> const T &pick(const T (&v)[N]) { return v[below(N)]; }
};

// ---------------------------------------------------------------- JSON helpers
static inline std::string jstr(const std::string &s)
{
    std::string o = "\"";
    char b[8];
    for(unsigned char c : s) {
        if(c == '"') o += "\\\"";
        else if(c == '\\') o += "\\\\";
        else if(c == '\n') o += "\\n";
        else if(c == '\t') o += "\\t";
        else if(c < 0x20 || c >= 0x7f) { snprintf(b, sizeof b, "\\u%04x", c); o += b; }
        else o += (char)c;
    }
    return o + "\"";
}
static inline std::string hexs(const void *p, size_t n)
{
    static const char *d = "0123456789abcdef";
    std::string o;
    const unsigned char *c = (const unsigned char *)p;
    for(size_t i = 0; i < n; ++i) { o += d[c[i] >> 4]; o += d[c[i] & 15]; }
    return o;
}
// printable rendering of a byte string (non printable as \xNN)
static inline std::string vis(const void *p, size_t n)
{
    std::string o;
    char b[8];
    const unsigned char *c = (const unsigned char *)p;
    for(size_t i = 0; i < n; ++i) {
        if(c[i] >= 0x20 && c[i] < 0x7f && c[i] != '\\') o += (char)c[i];
        else { snprintf(b, sizeof b, "\\x%02x", c[i]); o += b; }
    }
    return o;
}
static inline std::string vis(const std::string &s) { return vis(s.data(), s.size()); }
static inline std::string fmt(const char *f, ...) __attribute__((format(printf, 1, 2)));
static inline std::string fmt(const char *f, ...)
{
    char buf[4096];
    va_list va;
    va_start(va, f);
    vsnprintf(buf, sizeof buf, f, va);
    va_end(va);
    return buf;
}

// ---------------------------------------------------------------- global run state
struct Args {
    uint64_t seed = 1;
    uint64_t from = 0, count = 1;
    std::string tier = "quick", mode, out;
    bool verbose = false;
    std::string hex;         // run exactly this input (hex bytes) instead of generated cases (fuzz mode replay)
    bool beacon = false;     // write a progress line per case (used under valgrind, which may kill the process at an error)
    bool thorough() const { return tier == "thorough"; }
};

static Args g_args;
static int g_out_fd = 2;
static volatile int64_t g_case_index = -1;      // beacon
static volatile int g_clean_exit = 0;
static const unsigned char *volatile g_cur_data = 0;   // current raw input (fuzz mode): dumped by the crash beacon
static volatile size_t g_cur_size = 0;
static std::atomic<uint64_t> g_progress{0};
static uint64_t g_evaluations = 0;
static std::map<std::string, uint64_t> g_counters;
static std::unordered_set<uint64_t> g_distinct;
static std::vector<std::string> g_samples;   // JSON values
static uint64_t g_fail_count = 0;
static std::map<std::string, int> g_fail_per_check;
static int g_watchdog_secs = 20;

static inline void count(const char *k, uint64_t n = 1) { g_counters[k] += n; }
static inline void count(const std::string &k, uint64_t n = 1) { g_counters[k] += n; }
static inline void distinct(uint64_t h) { if(g_distinct.size() < 400000) g_distinct.insert(h); }
static inline void sample(const std::string &json_value, size_t max = 6)
{ if(g_samples.size() < max) g_samples.push_back(json_value); }

static inline void out_line(const std::string &s)
{
    std::string l = s + "\n";
    ssize_t r = write(g_out_fd, l.data(), l.size());
    (void)r;
}

static inline std::string jtags(const std::vector<std::string> &tags)
{
    std::string t = "[";
    for(size_t i = 0; i < tags.size(); ++i) t += (i ? "," : "") + jstr(tags[i]);
    return t + "]";
}

// An oracle failure.  `check` is the oracle id, tags classify the failing case
// (used for known-finding matching), the rest is for humans.
static inline void fail(const std::string &check, const std::vector<std::string> &tags,
                        const std::string &case_desc, const std::string &observed,
                        const std::string &expected)
{
    ++g_fail_count;
    std::string key = check;
    for(auto &t : tags) key += "|" + t;
    if(++g_fail_per_check[key] > 25) return; // keep logs bounded; count is still reported
    out_line("{\"t\":\"fail\",\"check\":" + jstr(check) + ",\"tags\":" + jtags(tags) +
             ",\"index\":" + std::to_string((long long)g_case_index) + ",\"case\":" + jstr(case_desc) +
             ",\"observed\":" + jstr(observed) + ",\"expected\":" + jstr(expected) + "}");
    if(g_args.verbose)
        fprintf(stderr, "FAIL %s case=%s\n  observed=%s\n  expected=%s\n", check.c_str(),
                case_desc.c_str(), observed.c_str(), expected.c_str());
}

// in --verbose (single case) mode harnesses describe the case before running it
static inline void describe_case(const std::string &desc, const std::vector<std::string> &tags = {})
{
    if(!g_args.verbose) return;
    out_line("{\"t\":\"case\",\"index\":" + std::to_string((long long)g_case_index) + ",\"case\":" +
             jstr(desc) + ",\"tags\":" + jtags(tags) + "}");
    fprintf(stderr, "CASE %lld: %s\n", (long long)g_case_index, desc.c_str());
}

// ---------------------------------------------------------------- crash beacon
static inline void sig_write(const char *kind)
{
    static char buf[160 + 2 * 1024];
    int n = snprintf(buf, 160, "\n{\"t\":\"crash\",\"index\":%lld,\"kind\":\"%s\"",
                     (long long)g_case_index, kind);
    const unsigned char *d = g_cur_data;
    size_t dn = g_cur_size;
    if(d && dn <= 1024) {
        static const char *hx = "0123456789abcdef";
        n += snprintf(buf + n, 16, ",\"hex\":\"");
        for(size_t i = 0; i < dn; ++i) { buf[n++] = hx[d[i] >> 4]; buf[n++] = hx[d[i] & 15]; }
        buf[n++] = '"';
    }
    buf[n++] = '}'; buf[n++] = '\n';
    ssize_t r = write(g_out_fd, buf, n);
    (void)r;
}
static void on_signal(int sig)
{
    const char *k = sig == SIGSEGV ? "SIGSEGV" : sig == SIGABRT ? "SIGABRT" : sig == SIGBUS ? "SIGBUS"
                  : sig == SIGFPE ? "SIGFPE" : sig == SIGILL ? "SIGILL" : "signal";
    sig_write(k);
    signal(sig, SIG_DFL);
    raise(sig);
}
static void on_exit_hook(void)
{
    if(!g_clean_exit) sig_write("exit");
}
static void *watchdog_thread(void *)
{
    uint64_t last = g_progress.load();
    int idle = 0;
    for(;;) {
        sleep(1);
        uint64_t now = g_progress.load();
        if(now != last) { last = now; idle = 0; continue; }
        if(++idle >= g_watchdog_secs) {
            sig_write("hang");
            g_clean_exit = 1;
            _exit(97);
        }
    }
    return 0;
}

static inline void parse_args(int argc, char **argv)
{
    for(int i = 1; i < argc; ++i) {
        std::string a = argv[i];
        auto nxt = [&]() -> const char * { return i + 1 < argc ? argv[++i] : ""; };
        if(a == "--seed") g_args.seed = strtoull(nxt(), 0, 10);
        else if(a == "--from") g_args.from = strtoull(nxt(), 0, 10);
        else if(a == "--count") g_args.count = strtoull(nxt(), 0, 10);
        else if(a == "--tier") g_args.tier = nxt();
        else if(a == "--mode") g_args.mode = nxt();
        else if(a == "--out") g_args.out = nxt();
        else if(a == "--verbose") g_args.verbose = true;
        else if(a == "--beacon") g_args.beacon = true;
        else if(a == "--hex") g_args.hex = nxt();
    }
}

static inline void begin(int argc, char **argv)
{
    parse_args(argc, argv);
    if(!g_args.out.empty()) {
        g_out_fd = open(g_args.out.c_str(), O_WRONLY | O_CREAT | O_TRUNC, 0644);
        if(g_out_fd < 0) { perror("open out"); exit(2); }
    }
    setenv("TZ", "UTC", 1);
    tzset();
    struct sigaction sa;
    memset(&sa, 0, sizeof sa);
    sa.sa_handler = on_signal;
    static char altstack[1 << 16];
    stack_t ss;
    ss.ss_sp = altstack; ss.ss_size = sizeof altstack; ss.ss_flags = 0;
    sigaltstack(&ss, 0);
    sa.sa_flags = SA_ONSTACK;
    sigaction(SIGABRT, &sa, 0);
#if !defined(__SANITIZE_ADDRESS__) && !defined(__SANITIZE_THREAD__) && !VH_CLANG_SANITIZER
    // under a sanitizer its own handler prints the report (then aborts)
    sigaction(SIGSEGV, &sa, 0);
    sigaction(SIGBUS, &sa, 0);
    sigaction(SIGFPE, &sa, 0);
    sigaction(SIGILL, &sa, 0);
#endif
    atexit(on_exit_hook);
    pthread_t th;
    pthread_create(&th, 0, watchdog_thread, 0);
    pthread_detach(th);
}

static inline void finish()
{
    std::string df;
    if(!g_args.out.empty()) {
        df = g_args.out + ".distinct";
        FILE *f = fopen(df.c_str(), "wb");
        if(f) {
            for(uint64_t h : g_distinct) fwrite(&h, 8, 1, f);
            fclose(f);
        }
    }
    std::string s = "{\"t\":\"summary\",\"evaluations\":" + std::to_string(g_evaluations) +
                    ",\"fails\":" + std::to_string(g_fail_count) + ",\"counters\":{";
    bool first = true;
    for(auto &kv : g_counters) {
        s += (first ? "" : ",") + jstr(kv.first) + ":" + std::to_string(kv.second);
        first = false;
    }
    s += "},\"samples\":[";
    for(size_t i = 0; i < g_samples.size(); ++i) s += (i ? "," : "") + g_samples[i];
    s += "],\"distinct_file\":" + jstr(df) + "}";
    out_line(s);
    g_clean_exit = 1;
}

// Per-case RNG: depends only on (seed, property salt, index)
static inline Rng case_rng(uint64_t salt, uint64_t index)
{ return Rng(mix(mix(g_args.seed, salt), index)); }

// Standard main loop.  run_case(index, rng) executes one case.
static inline int main_loop(int argc, char **argv, uint64_t salt,
                            const std::function<void(uint64_t, Rng &)> &run_case)
{
    begin(argc, argv);
    for(uint64_t i = g_args.from; i < g_args.from + g_args.count; ++i) {
        g_case_index = (int64_t)i;
        g_progress.fetch_add(1, std::memory_order_relaxed);
        if(g_args.beacon) out_line("{\"t\":\"progress\",\"index\":" + std::to_string(i) + "}");
        Rng r = case_rng(salt, i);
        run_case(i, r);
        ++g_evaluations;
    }
    g_case_index = -1;
    finish();
    return 0;
}

// ---------------------------------------------------------------- guard-page buffer
// `len` usable bytes ending exactly at a PROT_NONE page; 8 canary bytes in front.
struct GuardBuf {
    char *map = 0;
    size_t maplen = 0;
    char *p = 0;
    size_t len = 0;
    static constexpr unsigned char CAN = 0xC7;
    explicit GuardBuf(size_t cap_max)
    {
        size_t pg = 4096;
        size_t body = ((cap_max + 64 + pg - 1) / pg) * pg;
        maplen = body + pg;
        map = (char *)mmap(0, maplen, PROT_READ | PROT_WRITE, MAP_PRIVATE | MAP_ANONYMOUS, -1, 0);
        if(map == MAP_FAILED) { perror("mmap"); exit(2); }
        mprotect(map + body, pg, PROT_NONE);
    }
    ~GuardBuf() { if(map) munmap(map, maplen); }
    GuardBuf(const GuardBuf &) = delete;
    // position a buffer of n bytes flush against the guard page, filled with `fill`
    char *place(size_t n, unsigned char fill = 0xA5)
    {
        size_t body = maplen - 4096;
        if(n + 16 > body) { fprintf(stderr, "harness: GuardBuf of %zu bytes asked for %zu\n", body, n); _exit(2); }
        p = map + body - n;
        len = n;
        memset(p - 16, CAN, 16);
        memset(p, fill, n);
        return p;
    }
    char *place_copy(const void *src, size_t n)
    {
        place(n);
        if(n) memcpy(p, src, n);
        return p;
    }
    bool canary_ok() const
    {
        for(int i = 1; i <= 16; ++i) if((unsigned char)p[-i] != CAN) return false;
        return true;
    }
};

} // namespace vh

// AddressSanitizer calls this (weak hook) before printing its report
extern "C" void __asan_on_error(void) { vh::sig_write("asan"); }
