// C06 — ThreadLink is a lossless FIFO between two threads under every interleaving.
// Engines (modes):
//   seq    sequential histories vs. reference ring model            (asan)
//   sched  controlled interleavings: baton passing at every shared access,
//          all schedules with <= K preemptions + random schedules    (asan)
//   stress free-running writer/reader with injected delays           (tsan)
#include "vh.h"
#include <rtosc/rtosc.h>
#include <rtosc/thread-link.h>
#include <thread>
#include <deque>
#include <mutex>
#include <condition_variable>
using namespace vh;

extern "C" void (*rtosc_verif_sched_hook)(int code, long value);

enum { K_LOAD_PRE = 0, K_LOAD_POST = 1, K_STORE_PRE = 2, K_STORE_POST = 3, K_COPY_PRE = 4, K_COPY_POST = 5 };
enum { V_W = 0, V_R = 1, V_LA = 2 };

// ---------------------------------------------------------------- messages with identity
// "/m" ,ib  seq  blob(len derived)   -> size = 4 + 4 + 4 + 4 + pad4(blen)
static size_t msg_size_for_blob(size_t blen) { return 16 + ((blen + 3) & ~(size_t)3); }
static std::string make_msg(uint32_t seq, size_t blen)
{
    std::string b(blen, 0);
    for(size_t i = 0; i < blen; ++i) b[i] = (char)(seq * 31 + i * 7 + 1);
    char buf[4096];
    rtosc_arg_t a[2];
    a[0].i = (int32_t)seq;
    a[1].b.len = (int32_t)blen;
    a[1].b.data = (uint8_t *)b.data();
    size_t l = rtosc_amessage(buf, sizeof buf, "/m", "ib", a);
    return std::string(buf, l);
}
static std::string show_msg(const char *p, size_t n) { return hexs(p, n > 48 ? 48 : n) + fmt("(%zu)", n); }

// ---------------------------------------------------------------- reference model
struct Model {
    size_t ring, maxmsg;
    std::vector<std::string> pub;    // accepted messages in order
    size_t consumed = 0;             // index of the oldest unconsumed
    size_t la = 0;                   // lookahead cursor (index into pub), >= consumed
    size_t pub_bytes = 0, cons_bytes = 0;
    Model(size_t maxmsg_, size_t n) : ring(maxmsg_ * n), maxmsg(maxmsg_) {}
    size_t free_space() const { return ring - 1 - (pub_bytes - cons_bytes); }
    bool would_accept(size_t len) const { return len <= maxmsg && len <= free_space(); }
    void publish(const std::string &m) { pub.push_back(m); pub_bytes += m.size(); }
    bool has_next() const { return pub.size() > consumed; }
    bool has_next_la() const { return pub.size() > la; }
    const std::string &front() const { return pub[consumed]; }
    void consume() { cons_bytes += pub[consumed].size(); ++consumed; la = consumed; }
};

// =========================================================================== seq
static void run_seq(Rng &r)
{
    size_t maxmsg = (size_t)(4 * r.range(5, 12));      // 20..48
    // some links carry larger messages: blob length fields with bytes >= 0x80, two-byte lengths
    if(r.chance(0.15)) { maxmsg = (size_t)(4 * r.range(40, 180)); count("seq.large_maxmsg"); }
    size_t n = (size_t)r.range(2, 6);
    rtosc::ThreadLink tl(maxmsg, n);
    Model md(maxmsg, n);
    int ops = (int)r.range(1, 60);
    std::string hist = fmt("ThreadLink(%zu,%zu):", maxmsg, n);
    uint32_t seq = 1;
    auto bad = [&](const char *chk, const std::string &obs, const std::string &exp, std::vector<std::string> tags = {}) { fail(chk, tags, hist, obs, exp); };
    for(int o = 0; o < ops; ++o) {
        int k = (int)r.below(10);
        if(k < 4) {
            // write of varying size: far below .. above MaxMsg, exact-fill sizes frequent
            size_t blen;
            if(r.chance(0.3)) { size_t fr = md.free_space(); blen = fr >= 16 ? ((fr - 16) & ~(size_t)3) + (size_t)(4 * r.range(-1, 1)) : 0; if((ssize_t)blen < 0) blen = 0; }
            else blen = r.chance(0.8) ? (size_t)r.range(0, (int64_t)maxmsg - 16) : (size_t)r.range(0, (int64_t)maxmsg + 8);
            if(blen > 200) blen = 200;
            std::string m = make_msg(seq, blen);
            int via = (int)r.below(3);
            bool expect = md.would_accept(m.size());
            hist += fmt(" %s(#%u,%zuB)%s", via == 0 ? "write" : via == 1 ? "writeArray" : "raw_write", seq, m.size(), expect ? "" : "!");
            if(g_args.verbose) fprintf(stderr, "%s\n", hist.c_str());
            std::string b(blen, 0);
            for(size_t i = 0; i < blen; ++i) b[i] = (char)(seq * 31 + i * 7 + 1);
            if(via == 0) tl.write("/m", "ib", (int)seq, (int)blen, b.data());
            else if(via == 1) { rtosc_arg_t a[2]; a[0].i = (int32_t)seq; a[1].b.len = (int32_t)blen; a[1].b.data = (uint8_t *)b.data(); tl.writeArray("/m", "ib", a); }
            else {
                // raw_write reads the message length from the bytes: exact-size heap copy + zero word (bundle-safe)
                std::unique_ptr<char[]> h(new char[m.size()]);
                memcpy(h.get(), m.data(), m.size());
                tl.raw_write(h.get());
            }
            count(expect ? "seq.write_accepted" : (m.size() > maxmsg ? "seq.write_dropped_oversize" : "seq.write_dropped_full"));
            if(expect) md.publish(m);
            ++seq;
        } else if(k < 6) {
            bool h = tl.hasNext();
            hist += " hasNext";
            count("seq.hasNext");
            if(h != md.has_next()) { bad("hasNext", h ? "true" : "false", md.has_next() ? "true" : "false"); return; }
            if(!h) count("seq.observed_empty");
        } else if(k < 8) {
            if(!md.has_next()) { if(tl.hasNext()) { bad("hasNext", "true", "false"); return; } continue; }
            if(!tl.hasNext()) { bad("hasNext", "false", "true (a message was accepted and not yet consumed)"); return; }
            const char *g = tl.read();
            hist += " read";
            count("seq.read");
            const std::string &e = md.front();
            if(memcmp(g, e.data(), e.size())) { bad("read_bytes", show_msg(g, e.size()), show_msg(e.data(), e.size())); return; }
            if(tl.peak() != g) bad("peak", "different pointer", "last message read");
            md.consume();
            if(md.cons_bytes / md.ring != (md.cons_bytes - e.size()) / md.ring) count("seq.ring_wrapped");
        } else if(k < 9) {
            bool h = tl.hasNextLookahead();
            hist += " hasNextLookahead";
            if(h != md.has_next_la()) { bad("hasNextLookahead", h ? "true" : "false", md.has_next_la() ? "true" : "false"); return; }
            if(h) {
                const char *g = tl.read_lookahead();
                hist += " read_lookahead";
                count("seq.read_lookahead");
                const std::string &e = md.pub[md.la];
                if(memcmp(g, e.data(), e.size())) { bad("lookahead_bytes", show_msg(g, e.size()), show_msg(e.data(), e.size())); return; }
                md.la++;
            }
        } else {
            // drain through lookahead without consuming, then verify nothing was consumed
            size_t before = md.consumed;
            while(md.has_next_la()) {
                if(!tl.hasNextLookahead()) { bad("hasNextLookahead", "false", "true"); return; }
                const char *g = tl.read_lookahead();
                const std::string &e = md.pub[md.la];
                if(memcmp(g, e.data(), e.size())) { bad("lookahead_bytes", show_msg(g, e.size()), show_msg(e.data(), e.size())); return; }
                md.la++;
                count("seq.read_lookahead");
            }
            hist += " lookahead_all";
            if(tl.hasNextLookahead()) { bad("hasNextLookahead", "true", "false after reading everything ahead"); return; }
            if(md.consumed != before || tl.hasNext() != md.has_next()) { bad("lookahead_consumed", "hasNext changed", "lookahead must not consume"); return; }
        }
    }
    // final drain: everything accepted must come out, in order
    while(md.has_next()) {
        if(!tl.hasNext()) { bad("lost_message", "hasNext false", fmt("%zu messages still queued", md.pub.size() - md.consumed)); return; }
        const char *g = tl.read();
        const std::string &e = md.front();
        if(memcmp(g, e.data(), e.size())) { bad("read_bytes", show_msg(g, e.size()), show_msg(e.data(), e.size())); return; }
        md.consume();
    }
    if(tl.hasNext()) bad("hasNext", "true", "false: everything accepted has been consumed");
    distinct(hash_str(hist));
    sample(jstr(hist.substr(0, 400)));
}

// =========================================================================== sched
struct Op { int kind; size_t blen; };   // kind 0 write 1 hasNext+read 2 hasNextLookahead+read_lookahead 3 hasNext only
struct Program { std::vector<Op> w, r; size_t maxmsg, n; };

static struct Sched {
    // configuration of the current run
    std::vector<uint32_t> preempt_at;   // sorted global step numbers at which to switch
    bool random_mode = false;
    Rng rnd{0};
    double p_switch = 0;
    // run state
    std::atomic<int> turn{-1};          // 0 writer, 1 reader, -1 controller
    bool done[2] = {false, false};
    uint32_t step = 0;
    std::vector<uint8_t> trace;         // thread id per step
    std::vector<uint8_t> can_preempt;   // per step: other thread alive
    bool active = false;
    uint64_t steps_total = 0;
} S;
static thread_local int tl_me = -1;

static void wait_turn(int me)
{
    int spins = 0;
    while(S.turn.load(std::memory_order_acquire) != me) { if(++spins > 200) { std::this_thread::yield(); spins = 0; } }
}

// per-thread op context for the oracle
struct Ctx {
    Model *md = 0;
    rtosc::ThreadLink *tl = 0;
    std::string hist;
    // writer
    bool in_write = false; size_t cur_len = 0; std::string cur_msg; bool expect_accept = false; bool decided = false; long w_old = 0; bool w_store_seen = false;
    // reader
    bool in_has = false; bool has_expect = false; bool has_la = false;
    bool failed = false;
    std::vector<std::string> events;
} C;

static void sched_fail(const char *chk, const std::string &obs, const std::string &exp)
{
    if(C.failed) return;
    C.failed = true;
    std::string tr;
    for(size_t i = 0; i < S.trace.size() && i < 400; ++i) tr += S.trace[i] ? 'r' : 'w';
    fail(chk, {}, C.hist + " schedule=" + tr, obs, exp);
}

static void hook(int code, long value)
{
    int me = tl_me;
    if(me < 0 || !S.active) return;
    int kind = code / 8, var = code % 8;
    // ---- oracle bookkeeping (only one thread runs at a time, so this is race free)
    Model &md = *C.md;
    if(me == 0) {
        if(kind == K_LOAD_POST && var == V_R && C.in_write && !C.decided) {
            // the writer just sampled the read index: the accept/drop decision is fixed now
            C.expect_accept = md.would_accept(C.cur_len);
            C.decided = true;
        }
        if(kind == K_LOAD_POST && var == V_W && C.in_write) C.w_old = value;
        if(kind == K_STORE_POST && var == V_W && C.in_write) {
            size_t adv = (size_t)((value - C.w_old + (long)md.ring) % (long)md.ring);
            C.w_old = value;
            size_t expect = C.expect_accept && !C.w_store_seen ? C.cur_len : 0;
            if(adv != expect && !C.w_store_seen)
                sched_fail("write_acceptance", fmt("write index advanced by %zu", adv), fmt("%zu (message of %zu bytes, free space %zu, MaxMsg %zu)", expect, C.cur_len, md.free_space(), md.maxmsg));
            if(adv && C.expect_accept && !C.w_store_seen) md.publish(C.cur_msg);
            else if(adv) sched_fail("partial_publish", fmt("write index advanced again by %zu inside one write", adv), "one publication per accepted message");
            C.w_store_seen = true;
        }
    } else {
        if(kind == K_LOAD_POST && var == V_W && C.in_has) { C.has_expect = C.has_la ? md.has_next_la() : md.has_next(); }
        if(kind == K_STORE_POST && var == V_R) { if(md.has_next()) md.consume(); else sched_fail("consume_without_message", "read index stored", "nothing to consume"); }
        if(kind == K_STORE_POST && var == V_LA) { /* cursor is tracked at op level */ }
    }
    // ---- scheduling: only before an access
    if(kind == K_LOAD_PRE || kind == K_STORE_PRE || kind == K_COPY_PRE) {
        uint32_t st = S.step++;
        S.trace.push_back((uint8_t)me);
        int other = 1 - me;
        bool can = !S.done[other];
        S.can_preempt.push_back(can);
        bool sw = false;
        if(can) {
            if(S.random_mode) sw = S.rnd.chance(S.p_switch);
            else sw = std::binary_search(S.preempt_at.begin(), S.preempt_at.end(), st);
        }
        if(sw) {
            S.turn.store(other, std::memory_order_release);
            wait_turn(me);
        }
    }
}

static Program g_prog;
static std::vector<std::string> g_got;   // messages the reader received (normal reads)

static void writer_body()
{
    uint32_t seq = 1;
    for(auto &op : g_prog.w) {
        std::string m = make_msg(seq, op.blen);
        C.in_write = true; C.cur_len = m.size(); C.cur_msg = m; C.decided = false; C.w_store_seen = false; C.expect_accept = false;
        std::string b(op.blen, 0);
        for(size_t i = 0; i < op.blen; ++i) b[i] = (char)(seq * 31 + i * 7 + 1);
        if(op.kind == 0) C.tl->write("/m", "ib", (int)seq, (int)op.blen, b.data());
        else C.tl->raw_write(m.c_str());
        C.in_write = false;
        ++seq;
    }
}
static void reader_body()
{
    Model &md = *C.md;
    size_t la_local = 0;
    for(auto &op : g_prog.r) {
        if(op.kind == 1 || op.kind == 3) {
            C.in_has = true; C.has_la = false;
            bool h = C.tl->hasNext();
            C.in_has = false;
            if(h != C.has_expect) { sched_fail("hasNext", h ? "true" : "false", C.has_expect ? "true" : "false"); return; }
            if(h && op.kind == 1) {
                if(!md.has_next()) { sched_fail("hasNext", "true", "false"); return; }
                std::string e = md.front();
                const char *g = C.tl->read();
                if(memcmp(g, e.data(), e.size())) { sched_fail("read_bytes", show_msg(g, e.size()), show_msg(e.data(), e.size())); return; }
                g_got.push_back(e);
                if(md.consumed != g_got.size()) { sched_fail("consume_count", fmt("%zu index stores", md.consumed), fmt("%zu reads", g_got.size())); return; }
            }
        } else {
            C.in_has = true; C.has_la = true;
            bool h = C.tl->hasNextLookahead();
            C.in_has = false;
            if(h != C.has_expect) { sched_fail("hasNextLookahead", h ? "true" : "false", C.has_expect ? "true" : "false"); return; }
            if(h) {
                std::string e = md.pub[md.la];
                const char *g = C.tl->read_lookahead();
                if(memcmp(g, e.data(), e.size())) { sched_fail("lookahead_bytes", show_msg(g, e.size()), show_msg(e.data(), e.size())); return; }
                md.la++;
            }
        }
        (void)la_local;
    }
}

// persistent workers
static std::mutex g_mx;
static std::condition_variable g_cv;
static int g_go[2] = {0, 0}, g_fin[2] = {0, 0};
static bool g_quit = false;
static void worker(int me)
{
    tl_me = me;
    for(;;) {
        { std::unique_lock<std::mutex> l(g_mx); g_cv.wait(l, [&] { return g_go[me] || g_quit; }); if(g_quit) return; g_go[me] = 0; }
        wait_turn(me);
        if(me == 0) writer_body(); else reader_body();
        S.done[me] = true;
        // hand over: to the other thread if it still runs, else to the controller
        S.turn.store(S.done[1 - me] ? -1 : 1 - me, std::memory_order_release);
        { std::unique_lock<std::mutex> l(g_mx); g_fin[me] = 1; g_cv.notify_all(); }
    }
}

static std::unordered_set<uint64_t> g_interleavings, g_ringstates;

// one controlled execution; returns trace length
static uint32_t run_schedule(const std::vector<uint32_t> &pre, int first, bool random_mode, uint64_t rseed, double psw)
{
    rtosc::ThreadLink tl(g_prog.maxmsg, g_prog.n);
    Model md(g_prog.maxmsg, g_prog.n);
    C = Ctx();
    C.md = &md; C.tl = &tl;
    C.hist = fmt("ThreadLink(%zu,%zu) writer:[", g_prog.maxmsg, g_prog.n);
    for(auto &o : g_prog.w) C.hist += fmt("%s(%zuB) ", o.kind == 0 ? "write" : "raw_write", msg_size_for_blob(o.blen));
    C.hist += "] reader:[";
    for(auto &o : g_prog.r) C.hist += o.kind == 1 ? "poll+read " : o.kind == 3 ? "poll " : "lookahead ";
    C.hist += fmt("] first=%c", first ? 'r' : 'w');
    g_got.clear();
    S.preempt_at = pre; S.random_mode = random_mode; S.rnd = Rng(rseed); S.p_switch = psw;
    S.done[0] = S.done[1] = false; S.step = 0; S.trace.clear(); S.can_preempt.clear();
    S.active = true;
    { std::unique_lock<std::mutex> l(g_mx); g_go[0] = g_go[1] = 1; g_fin[0] = g_fin[1] = 0; g_cv.notify_all(); }
    S.turn.store(first, std::memory_order_release);
    { std::unique_lock<std::mutex> l(g_mx); g_cv.wait(l, [&] { return g_fin[0] && g_fin[1]; }); }
    S.active = false;
    S.steps_total += S.step;
    g_progress.fetch_add(1, std::memory_order_relaxed);
    // drain: everything published must come out in order, then empty
    if(!C.failed) {
        while(md.has_next()) {
            if(!tl.hasNext()) { sched_fail("lost_message", "hasNext false after both threads finished", fmt("%zu messages queued", md.pub.size() - md.consumed)); break; }
            std::string e = md.front();
            const char *g = tl.read();
            if(memcmp(g, e.data(), e.size())) { sched_fail("read_bytes", show_msg(g, e.size()), show_msg(e.data(), e.size())); break; }
            md.consume();
        }
        if(!C.failed && tl.hasNext()) sched_fail("hasNext", "true after everything was consumed", "false");
    }
    uint64_t h = hash_bytes(S.trace.data(), S.trace.size(), first + 7);
    g_interleavings.insert(h);
    count("sched.executions");
    if(md.pub.size()) count("sched.executions_with_accepted_write");
    return S.step;
}

static void explore(std::vector<uint32_t> &pre, int first, int budget, uint64_t &runs, uint64_t max_runs)
{
    if(runs >= max_runs) { count("sched.truncated_explorations"); return; }
    uint32_t n = run_schedule(pre, first, false, 0, 0);
    ++runs;
    if(budget == 0 || C.failed) return;
    std::vector<uint8_t> can = S.can_preempt;   // copy: the next runs overwrite it
    uint32_t start = pre.empty() ? 0 : pre.back() + 1;
    for(uint32_t s = start; s < n; ++s) {
        if(!can[s]) continue;
        pre.push_back(s);
        explore(pre, first, budget - 1, runs, max_runs);
        pre.pop_back();
        if(g_fail_count > 20) return;
    }
}

static void run_sched(Rng &r, uint64_t index)
{
    Program p;
    p.maxmsg = (size_t)(4 * r.range(5, 10));
    p.n = (size_t)r.range(2, 4);
    size_t ring = p.maxmsg * p.n;
    int nw = (int)r.range(2, 4), nr = (int)r.range(3, 6);
    for(int i = 0; i < nw; ++i) {
        size_t blen = r.chance(0.6) ? (size_t)r.range(0, (int64_t)p.maxmsg - 16) : (size_t)r.range(0, (int64_t)p.maxmsg + 4);
        if(r.chance(0.3)) blen = (p.maxmsg - 16) & ~(size_t)3;    // MaxMsg-sized: forces wrap/full quickly
        p.w.push_back(Op{r.chance(0.8) ? 0 : 4, blen});
    }
    for(int i = 0; i < nr; ++i) { int k = (int)r.below(10); p.r.push_back(Op{k < 7 ? 1 : k < 8 ? 3 : 2, 0}); }
    (void)ring;
    g_prog = p;
    int K = g_args.thorough() ? 3 : 2;
    bool deep = g_args.thorough() ? (index % 10 == 0) : true;
    if(g_args.thorough() && !deep) K = 2;
    uint64_t runs = 0;
    uint64_t max_runs = g_args.thorough() ? 60000 : 6000;
    for(int first = 0; first < 2; ++first) {
        std::vector<uint32_t> pre;
        explore(pre, first, K, runs, max_runs);
    }
    // random schedules beyond the bound
    int nrand = g_args.thorough() ? 300 : 60;
    for(int k = 0; k < nrand && !C.failed; ++k) run_schedule({}, (int)r.below(2), true, r.next(), r.chance(0.5) ? 0.15 : 0.4);
    describe_case(C.hist);
    sample(jstr(C.hist), 8);
    g_evaluations += runs + nrand - 1;
}

// =========================================================================== stress (tsan)
static std::atomic<uint64_t> st_cons_done{0}, st_cons_started{0}, st_reader_idle{0};
static std::atomic<bool> st_stuck{false};
static thread_local Rng tl_rng{0};
static std::atomic<bool> st_delay{false};
static void stress_hook(int code, long)
{
    if(!st_delay.load(std::memory_order_relaxed)) return;
    int kind = code / 8;
    if(kind != K_LOAD_PRE && kind != K_STORE_PRE && kind != K_COPY_PRE && kind != K_COPY_POST) return;
    uint64_t x = tl_rng.next();
    if((x & 63) == 0) { int spin = (int)((x >> 8) & 1023); for(volatile int i = 0; i < spin; ++i) {} }
    else if((x & 4095) == 1) std::this_thread::yield();
}

struct WRec { uint32_t seq; uint32_t len; uint64_t cons_done_before, cons_started_after; };

static void run_stress(Rng &r, uint64_t index)
{
    size_t maxmsg = (size_t)(4 * r.range(6, 16));
    size_t n = (size_t)r.range(2, 8);
    size_t ring = maxmsg * n;
    bool flow = index % 2 == 0;
    uint32_t N = g_args.thorough() ? 2000000 : 200000;
    rtosc::ThreadLink tl(maxmsg, n);
    st_cons_done = 0; st_cons_started = 0; st_reader_idle = 0; st_stuck = false;
    std::vector<WRec> wlog;
    wlog.reserve(N);
    std::vector<uint32_t> got;
    got.reserve(N);
    std::atomic<bool> wdone{false};
    std::atomic<uint64_t> pub_est{0};
    std::string err;
    uint64_t seedw = r.next(), seedr = r.next();
    std::string desc = fmt("stress %s ThreadLink(%zu,%zu) N=%u", flow ? "flow-controlled" : "overflow", maxmsg, n, N);
    describe_case(desc);
    st_delay = true;
    std::thread wt([&] {
        tl_rng = Rng(seedw);
        Rng lr(seedw ^ 0x55);
        uint64_t my_pub = 0;
        for(uint32_t seq = 1; seq <= N; ++seq) {
            size_t blen = (size_t)lr.range(0, (int64_t)maxmsg - 16);
            if(!flow && lr.chance(0.05)) blen = maxmsg;             // oversize: must be dropped
            size_t len = msg_size_for_blob(blen);
            char b[256];
            for(size_t i = 0; i < blen; ++i) b[i] = (char)(seq * 31 + i * 7 + 1);
            if(flow) {
                // wait until the message certainly fits (harness-side accounting, lower bound on free space)
                int spins = 0;
                uint64_t idle0 = st_reader_idle.load(std::memory_order_acquire), cd0 = st_cons_done.load(std::memory_order_acquire);
                while(ring - 1 - (my_pub - st_cons_done.load(std::memory_order_acquire)) < len) {
                    if(++spins > 50) { std::this_thread::yield(); spins = 0; }
                    uint64_t cd = st_cons_done.load(std::memory_order_acquire);
                    if(cd != cd0) { cd0 = cd; idle0 = st_reader_idle.load(std::memory_order_acquire); }
                    else if(st_stuck.load(std::memory_order_acquire)) break;   // reader gave up (corrupt stream)
                    else if(st_reader_idle.load(std::memory_order_acquire) - idle0 > 2000000) {
                        // the reader polled an empty ring two million times while our accounting says messages are in flight
                        st_stuck.store(true, std::memory_order_release);
                        break;
                    }
                }
                if(st_stuck.load(std::memory_order_acquire)) break;
            }
            if(st_stuck.load(std::memory_order_acquire)) break;
            WRec w{seq, (uint32_t)len, st_cons_done.load(std::memory_order_acquire), 0};
            tl.write("/m", "ib", (int)seq, (int)blen, b);
            w.cons_started_after = st_cons_started.load(std::memory_order_acquire);
            wlog.push_back(w);
            if(flow) my_pub += len;
            if((seq & 1023) == 0) g_progress.fetch_add(1, std::memory_order_relaxed);
        }
        wdone.store(true, std::memory_order_release);
    });
    std::thread rt([&] {
        tl_rng = Rng(seedr);
        uint64_t idle = 0;
        uint32_t last = 0;
        for(;;) {
            if(tl.hasNext()) {
                idle = 0;
                // bytes about to be consumed are not known before the read: count messages conservatively by size after
                const char *g = tl.read();
                size_t len = rtosc_message_length(g, maxmsg);
                uint32_t seq = (uint32_t)rtosc_argument(g, 0).i;
                rtosc_blob_t bl = rtosc_argument(g, 1).b;
                bool ok = len >= 16 && len <= maxmsg && !strcmp(g, "/m") && !strcmp(rtosc_argument_string(g), "ib") && len == msg_size_for_blob((size_t)bl.len);
                if(ok) for(int i = 0; i < bl.len; ++i) if((char)bl.data[i] != (char)(seq * 31 + i * 7 + 1)) { ok = false; break; }
                if(!ok && err.empty()) err = fmt("torn/corrupt message after #%u: ", last) + show_msg(g, len ? len : 32);
                if(seq <= last && err.empty()) err = fmt("order/duplication: #%u after #%u", seq, last);
                last = seq;
                got.push_back(seq);
                st_cons_started.fetch_add(len, std::memory_order_acq_rel);
                st_cons_done.fetch_add(len, std::memory_order_acq_rel);
                if(!err.empty()) { st_stuck.store(true, std::memory_order_release); break; }
            } else {
                if(wdone.load(std::memory_order_acquire) && !tl.hasNext()) break;
                st_reader_idle.fetch_add(1, std::memory_order_acq_rel);
                if(++idle > 200) { std::this_thread::yield(); idle = 0; }
            }
            if((got.size() & 1023) == 0) g_progress.fetch_add(1, std::memory_order_relaxed);
        }
    });
    wt.join();
    rt.join();
    st_delay = false;
    count("stress.runs");
    count("stress.messages_written", N);
    count("stress.messages_received", got.size());
    count(flow ? "stress.flow_runs" : "stress.overflow_runs");
    distinct(hash_str(desc, got.size()));
    sample(jstr(desc + fmt(" received=%zu", got.size())), 8);
    if(!err.empty()) { fail("stress_stream", {}, desc, err, "byte-identical messages in increasing order"); return; }
    if(st_stuck.load()) { fail("stress_lost", {}, desc, fmt("flow-controlled writer stalled after %zu messages: the harness accounting says the ring holds messages, the reader polled it empty 2e6 times", wlog.size()), "every accepted message is delivered"); return; }
    // NOTE on st_cons_started: it is bumped right after read() returns, together with cons_done; as an upper bound on
    // consumption at the time the writer sampled it, it is therefore only valid up to one in-flight message: add MaxMsg.
    // post-hoc acceptance check
    std::vector<bool> acc(N + 2, false);
    for(uint32_t s : got) if(s <= N) acc[s] = true;
    uint64_t pub = 0, must_ok = 0, mustnot_ok = 0, undetermined = 0;
    for(auto &w : wlog) {
        int64_t free_lo = (int64_t)ring - 1 - (int64_t)(pub - w.cons_done_before);
        int64_t free_hi = (int64_t)ring - 1 - (int64_t)(pub - std::min<uint64_t>(pub, w.cons_started_after + maxmsg));
        bool a = acc[w.seq];
        if(w.len > maxmsg) { if(a) { fail("stress_oversize_accepted", {}, desc, fmt("#%u of %u bytes received", w.seq, w.len), "dropped"); return; } ++mustnot_ok; }
        else if((int64_t)w.len <= free_lo) { if(!a) { fail("stress_lost", {}, desc, fmt("#%u (%u bytes) never received although >= %lld bytes were free", w.seq, w.len, (long long)free_lo), "received"); return; } ++must_ok; }
        else if((int64_t)w.len > free_hi) { if(a) { fail("stress_impossible_accept", {}, desc, fmt("#%u (%u bytes) received although at most %lld bytes were free", w.seq, w.len, (long long)free_hi), "dropped"); return; } ++mustnot_ok; }
        else ++undetermined;
        if(a) pub += w.len;
    }
    count("stress.accept_must_checked", must_ok);
    count("stress.drop_must_checked", mustnot_ok);
    count("stress.accept_undetermined", undetermined);
    if(flow && got.size() != N) fail("stress_lost", {}, desc, fmt("%zu of %u received", got.size(), N), "all (flow-controlled: every write fits)");
    g_evaluations += N - 1;
}

int main(int argc, char **argv)
{
    parse_args(argc, argv);
    std::string mode = g_args.mode;
    std::thread *w0 = 0, *w1 = 0;
    if(mode == "sched") { rtosc_verif_sched_hook = hook; w0 = new std::thread(worker, 0); w1 = new std::thread(worker, 1); }
    if(mode == "stress") rtosc_verif_sched_hook = stress_hook;
    g_watchdog_secs = 90;
    begin(argc, argv);
    for(uint64_t i = g_args.from; i < g_args.from + g_args.count; ++i) {
        g_case_index = (int64_t)i;
        g_progress.fetch_add(1, std::memory_order_relaxed);
        Rng r = case_rng(0xC06, i);
        if(mode == "seq") run_seq(r);
        else if(mode == "sched") run_sched(r, i);
        else run_stress(r, i);
        ++g_evaluations;
    }
    g_case_index = -1;
    if(mode == "sched") {
        count("sched.distinct_interleavings", g_interleavings.size());
        count("sched.scheduling_steps", S.steps_total);
        for(uint64_t h : g_interleavings) distinct(h);
    }
    finish();
    { std::unique_lock<std::mutex> l(g_mx); g_quit = true; g_cv.notify_all(); }
    if(w0) { w0->join(); w1->join(); }
    return 0;
}
