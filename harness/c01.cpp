// C01 — OSC 1.0 wire format: spec-exact encoding, lossless decoding.
// Oracle: independent reference codec (refosc.h).  DESIGN.md section 5, C01.
#include <array>
#include "oscgen.h"
#include <rtosc/arg-val-itr.h>
using namespace vh;
using gen::Msg;
using ref::Val;

static std::vector<std::string> tags_for(const Msg &m)
{
    std::vector<std::string> t;
    if(!m.types.empty() && (m.types[0] == '[' || m.types[0] == ']')) t.push_back("types_lead_bracket");
    return t;
}

static std::string hexdiff(const void *a, size_t na, const ref::bytes &b)
{
    return "len=" + std::to_string(na) + " " + hexs(a, na > 160 ? 160 : na) + " vs ref len=" +
           std::to_string(b.size()) + " " + hexs(b.data(), b.size() > 160 ? 160 : b.size());
}

// exact-size heap buffer (ASan red zones sit at the boundary)
struct Heap {
    char *p;
    size_t n;
    explicit Heap(size_t n_) : p((char *)malloc(n_ ? n_ : 1)), n(n_) { memset(p, 0xA5, n_ ? n_ : 1); }
    ~Heap() { free(p); }
};

static bool val_eq_arg(char t, const Val &v, const rtosc_arg_t &a, const char *msg, size_t len, std::string &why)
{
    switch(t) {
        case 'i': case 'c': case 'r':
            if((uint32_t)a.i != v.u32) { why = fmt("int %08x != %08x", (uint32_t)a.i, v.u32); return false; }
            return true;
        case 'f': {
            uint32_t u; memcpy(&u, &a.f, 4);
            if(u != v.u32) { why = fmt("float bits %08x != %08x", u, v.u32); return false; }
            return true;
        }
        case 'h': case 't': case 'd': {
            uint64_t u; memcpy(&u, &a.t, 8);
            if(u != v.u64) { why = fmt("64bit %016llx != %016llx", (unsigned long long)u, (unsigned long long)v.u64); return false; }
            return true;
        }
        case 'm':
            if(memcmp(a.m, v.m, 4)) { why = "midi differs"; return false; }
            return true;
        case 's': case 'S':
            if(a.s < msg || a.s >= msg + len) { why = "string pointer outside message"; return false; }
            if(strnlen(a.s, msg + len - a.s) != v.s.size() || memcmp(a.s, v.s.data(), v.s.size())) { why = "string differs: " + vis(a.s, strnlen(a.s, msg + len - a.s)); return false; }
            return true;
        case 'b':
            if((size_t)a.b.len != v.blob.size()) { why = fmt("blob len %d != %zu", a.b.len, v.blob.size()); return false; }
            if((const char *)a.b.data < msg || (const char *)a.b.data + a.b.len > msg + len) { why = "blob pointer outside message"; return false; }
            if(a.b.len && memcmp(a.b.data, v.blob.data(), v.blob.size())) { why = "blob data differs"; return false; }
            return true;
        case 'T': if(a.T != 1) { why = "T not true"; return false; } return true;
        case 'F': if(a.T != 0) { why = "F not false"; return false; } return true;
        default: return true;
    }
}

// `shift`: the message starts 0..3 bytes behind a 16-aligned address (upstream: test/message-alignment.c)
static void check_decode(const Msg &m, const ref::bytes &rb, const std::string &desc0, const std::vector<std::string> &tags, size_t shift = 0)
{
    Heap h(rb.size() + shift);
    memcpy(h.p + shift, rb.data(), rb.size());
    const char *msg = h.p + shift;
    size_t len = rb.size();
    std::string desc = shift ? desc0 + fmt(" [message placed at a 16-aligned address + %zu]", shift) : desc0;
    count(shift ? "decode.messages_unaligned" : "decode.messages");
    size_t ml = rtosc_message_length(msg, len);
    if(ml != len) fail("message_length", tags, desc, std::to_string(ml), std::to_string(len));
    // the same bytes handed over as a two-segment ring (as ThreadLink does when a message wraps): every split position
    // for short messages, a sample for long ones; each segment in its own exact-size block
    if(!shift) {
        size_t step = len <= 96 ? 1 : len / 24 + 1;
        for(size_t k = 0; k <= len; k += step) {
            Heap a(k), b(len - k);
            memcpy(a.p, msg, k); memcpy(b.p, msg + k, len - k);
            ring_t ring[2] = {{a.p, k}, {b.p, len - k}};
            size_t rl = rtosc_message_ring_length(ring);
            count("decode.ring_splits");
            if(rl != len) { fail("ring_length", tags, desc + fmt(" [as two segments of %zu + %zu bytes]", k, len - k), std::to_string(rl), std::to_string(len)); break; }
        }
    }
    const char *as = rtosc_argument_string(msg);
    if(as < msg || as >= msg + len || m.types != as)
        fail("argument_string", tags, desc, as >= msg && as < msg + len ? vis(as, strnlen(as, 64)) : "<outside>", m.types);
    unsigned n = rtosc_narguments(msg);
    if(n != m.vals.size()) fail("narguments", tags, desc, std::to_string(n), std::to_string(m.vals.size()));
    // by index
    size_t vi = 0;
    for(char t : m.types) {
        if(t == '[' || t == ']') continue;
        char lt = rtosc_type(msg, vi);
        if(lt != t) fail("type_by_index", tags, desc, fmt("idx %zu '%c'", vi, lt), std::string(1, t));
        else {
            rtosc_arg_t a = rtosc_argument(msg, vi);
            std::string why;
            if(!val_eq_arg(t, m.vals[vi], a, msg, len, why)) fail("argument_by_index", tags, desc, fmt("idx %zu: ", vi) + why, "bit-identical value");
            count("decode.args_by_index");
        }
        ++vi;
    }
    // iterator
    rtosc_arg_itr_t it = rtosc_itr_begin(msg);
    size_t yielded = 0;
    bool itr_ok = true;
    while(!rtosc_itr_end(it) && yielded < m.vals.size() + 4) {
        rtosc_arg_val_t av = rtosc_itr_next(&it);
        if(yielded < m.vals.size()) {
            const Val &v = m.vals[yielded];
            std::string why;
            if(av.type != v.type) { fail("iterator_type", tags, desc, fmt("pos %zu '%c'", yielded, av.type), std::string(1, v.type)); itr_ok = false; break; }
            if(!val_eq_arg(v.type, v, av.val, msg, len, why)) { fail("iterator_value", tags, desc, fmt("pos %zu: ", yielded) + why, "bit-identical value"); itr_ok = false; break; }
        }
        ++yielded;
        count("decode.iter_values");
    }
    if(itr_ok && yielded != m.vals.size()) fail("iterator_count", tags, desc, std::to_string(yielded), std::to_string(m.vals.size()));
    if(itr_ok && yielded != n) fail("count_vs_iterator", tags, desc, fmt("narguments=%u iterator=%zu", n, yielded), "equal");
}

static char *g_arena = (char *)calloc(1, 1 << 18);
static size_t g_arena_last = 0, g_arena_n = 0;
// Accessors are functions of the message bytes alone: a buffer that is reused for one message after the
// other, read in any order, must give the same answers as a fresh buffer read front to back.
static void check_history_independence(const Msg &m, const ref::bytes &rb, const std::string &desc0, const std::vector<std::string> &tags, uint64_t seed)
{
    if(rb.size() + 8 > (1u << 18) || m.vals.empty()) return;
    size_t off = 0;     // the very same address as the previous message
    memcpy(g_arena + off, rb.data(), rb.size());
    memset(g_arena + off + rb.size(), 0, 8);
    const char *msg = g_arena + off;
    std::string desc = desc0 + " [same buffer as the previous message, arguments read in another order]";
    count("decode.reused_buffer_messages");
    Rng r(seed);
    size_t n = m.vals.size();
    // order: descending, or a random start index then wrap around, or fully random picks
    int how = (int)r.below(4);
    size_t start = how == 3 ? (g_arena_last + 1) % n : (size_t)r.below(n);   // how 3: continue right behind the last argument read from the previous message
    for(size_t k = 0; k < n; ++k) {
        size_t i = how == 0 ? n - 1 - k : (how == 1 || how == 3) ? (start + k) % n : (size_t)r.below(n);
        char t = rtosc_type(msg, i);
        if(t != m.vals[i].type) { fail("type_by_index", tags, desc, fmt("idx %zu '%c'", i, t), std::string(1, m.vals[i].type)); return; }
        rtosc_arg_t a = rtosc_argument(msg, i);
        std::string why;
        if(!val_eq_arg(t, m.vals[i], a, msg, rb.size(), why)) { fail("argument_by_index", tags, desc, fmt("idx %zu: ", i) + why, "bit-identical value"); return; }
        count("decode.args_reused_buffer");
    }
    g_arena_n = n;
}
// last accessor call of a case: one argument of the message in the reused buffer
static void history_probe_end(uint64_t seed)
{
    if(!g_arena_n) return;
    g_arena_last = (size_t)((seed >> 9) % g_arena_n);
    (void)rtosc_argument(g_arena, (unsigned)g_arena_last);
}

static void check_encode_one(const char *which, size_t ret, const Heap &h, const ref::bytes &rb, const std::string &desc,
                             const std::vector<std::string> &tags)
{
    count(std::string("encode.") + which);
    if(ret != rb.size()) { fail(std::string(which) + "_return", tags, desc, std::to_string(ret), std::to_string(rb.size())); return; }
    if(memcmp(h.p, rb.data(), rb.size())) fail(std::string(which) + "_bytes", tags, desc, hexdiff(h.p, h.n, rb), "reference encoding");
}

static void run_msg(const Msg &m)
{
    std::string desc = m.render();
    std::vector<std::string> tags = tags_for(m);
    describe_case(desc, tags);
    ref::bytes rb = m.encode();
    distinct(hash_str(m.types, hash_bytes(rb.data(), rb.size() > 64 ? 64 : rb.size())));
    sample(jstr(desc));
    if(m.types.find('[') != std::string::npos || m.types.find(']') != std::string::npos) count("msgs.with_brackets");
    for(auto &v : m.vals) if(v.type == 'b' && v.blob_null && !v.blob.empty()) { count("msgs.null_blob"); break; }

    gen::ArgPack ap(m);
    // A: argument array
    {
        size_t need = rtosc_amessage(NULL, 0, m.addr.c_str(), m.types.c_str(), ap.data());
        if(need != rb.size()) fail("amessage_null_size", tags, desc, std::to_string(need), std::to_string(rb.size()));
        Heap h(rb.size());
        size_t ret = rtosc_amessage(h.p, h.n, m.addr.c_str(), m.types.c_str(), ap.data());
        check_encode_one("amessage", ret, h, rb, desc, tags);
    }
    // B: va_list (any length)
    if(gen::varargs_exact(m)) {
        gen::VaPack vp(m);
        Heap h(rb.size());
        size_t ret = vp.call(h.p, h.n, m);
        check_encode_one("vmessage", ret, h, rb, desc, tags);
        // C: true varargs
        if(m.ncarry() <= (size_t)gen::TRUE_VARARGS_MAX) {
            Heap h2(rb.size());
            size_t r2 = gen::call_true_varargs(h2.p, h2.n, m, ap);
            check_encode_one("message", r2, h2, rb, desc, tags);
        }
    }
    // D: arg-val list (scalars; no brackets expressible)
    if(m.types.find('[') == std::string::npos && m.types.find(']') == std::string::npos) {
        gen::AvPack avp(m);
        Heap h(rb.size());
        size_t ret = rtosc_avmessage(h.p, h.n, m.addr.c_str(), avp.av.size(), avp.av.data());
        std::vector<std::string> t2 = tags;
        // classify: a value-less tag (T F N I) precedes a value-carrying one
        bool seen_nv = false, mixed = false;
        for(char t : m.types) { if(!ref::carries(t)) seen_nv = true; else if(seen_nv) mixed = true; }
        if(mixed) t2.push_back("valueless_before_value");
        check_encode_one("avmessage", ret, h, rb, desc, t2);
    }
    uint64_t hh = hash_bytes(rb.data(), rb.size());
    check_history_independence(m, rb, desc, tags, hh);      // first accessor calls of this case (see there)
    check_decode(m, rb, desc, tags);
    check_decode(m, rb, desc, tags, 1 + hh % 3);
    // encoding into a destination that is not 4-byte aligned
    {
        size_t shift = 1 + (hh >> 8) % 3;
        Heap h(rb.size() + shift);
        size_t ret = rtosc_amessage(h.p + shift, rb.size(), m.addr.c_str(), m.types.c_str(), ap.data());
        count("encode.amessage_unaligned");
        if(ret != rb.size()) fail("amessage_return", tags, desc + " [unaligned destination]", std::to_string(ret), std::to_string(rb.size()));
        else if(memcmp(h.p + shift, rb.data(), rb.size())) fail("amessage_bytes", tags, desc + " [unaligned destination]", hexs(h.p + shift, rb.size() > 96 ? 96 : rb.size()), "reference encoding");
    }
    history_probe_end(hh);
}

// arg-val lists with compressed runs must encode like their expansion
static void run_ranges(Rng &r)
{
    // build a list of int-like values with runs
    std::string types;
    std::vector<rtosc_arg_val_t> comp, flat;
    int groups = (int)r.range(1, 5);
    for(int g = 0; g < groups; ++g) {
        char t = "ihcihcTFNI"[r.below(10)];     // also repetitions of the value-less tags
        bool valueless = strchr("TFNI", t) != 0;
        if(valueless) count("ranges.valueless_groups");
        int n = (int)r.range(1, 7);
        int64_t start = valueless ? (t == 'T') : t == 'c' ? r.range(32, 60) : r.range(-1000, 1000);
        int64_t delta = (valueless || r.chance(0.5)) ? 0 : r.range(-5, 5);
        if(t == 'c' && delta < 0) delta = -delta;
        bool compress = n >= 2 && r.chance(0.7);
        auto mk = [&](int64_t v) { rtosc_arg_val_t a; memset(&a, 0, sizeof a); a.type = t; if(t == 'h') a.val.h = v; else a.val.i = (int32_t)v; return a; };
        for(int k = 0; k < n; ++k) flat.push_back(mk(start + k * delta));
        if(compress) {
            rtosc_arg_val_t rg; memset(&rg, 0, sizeof rg);
            rg.type = '-';
            rtosc_av_rep_num_set(&rg, n);
            rtosc_av_rep_has_delta_set(&rg, delta != 0);
            comp.push_back(rg);
            if(delta != 0) comp.push_back(mk(delta));
            comp.push_back(mk(start));
            count("ranges.compressed_runs");
        } else
            for(int k = 0; k < n; ++k) comp.push_back(mk(start + k * delta));
    }
    std::string addr = gen::gen_addr(r);
    std::string desc = "ranges addr=" + vis(addr) + " flat=";
    for(auto &a : flat) desc += strchr("TFNI", a.type) ? fmt("%c ", a.type) : fmt("%c:%lld ", a.type, a.type == 'h' ? (long long)a.val.h : (long long)a.val.i);
    desc += fmt("(compressed to %zu slots)", comp.size());
    describe_case(desc);
    char b1[2048], b2[2048];
    size_t l1 = rtosc_avmessage(b1, sizeof b1, addr.c_str(), flat.size(), flat.data());
    size_t l2 = rtosc_avmessage(b2, sizeof b2, addr.c_str(), comp.size(), comp.data());
    count("ranges.lists");
    distinct(hash_bytes(b1, l1));
    if(l1 != l2 || memcmp(b1, b2, l1)) fail("avmessage_range_expansion", {}, desc, "len " + std::to_string(l2) + " " + hexs(b2, l2 > 120 ? 120 : l2), "len " + std::to_string(l1) + " " + hexs(b1, l1 > 120 ? 120 : l1));
    // and the flat one must be the reference encoding
    Msg m; m.addr = addr;
    for(auto &a : flat) { m.types += a.type; Val v; v.type = a.type; if(a.type == 'h') v.u64 = (uint64_t)a.val.h; else if(!strchr("TFNI", a.type)) v.u32 = (uint32_t)a.val.i; m.vals.push_back(v); }
    ref::bytes rb = m.encode();
    if(l1 != rb.size() || memcmp(b1, rb.data(), l1)) fail("avmessage_bytes", {}, desc, hexdiff(b1, l1, rb), "reference encoding");
}

int main(int argc, char **argv)
{
    return main_loop(argc, argv, 0xC01, [](uint64_t i, Rng &r) {
        int maxlen = g_args.thorough() ? 3 : 2;
        uint64_t nt = gen::count_types_upto(maxlen);
        uint64_t nexh = nt * 12;
        if(i < nexh) {
            std::string types = gen::nth_types(i / 12);
            int align = (int)(i % 4), profile = (int)((i / 4) % 3);
            Msg m = gen::gen_msg_for(r, gen::gen_addr(r, align), types, profile);
            count("cases.exhaustive_types");
            run_msg(m);
        } else if((i - nexh) % 8 == 7) {
            run_ranges(r);
        } else {
            Msg m = gen::gen_msg(r, 12, true);
            // many value-carrying arguments (more than any fixed-size scratch array would hold)
            if(r.chance(0.03)) { m.types.clear(); m.vals.clear(); int n = (int)r.range(30, 70); for(int q = 0; q < n; ++q) { char t = "ifhdscmtr"[r.below(9)]; m.types += t; m.vals.push_back(gen::gen_val(r, t, 2)); } for(auto &v : m.vals) if(v.blob.size() > 64) v.blob.resize(64); count("cases.many_value_arguments"); }
            count("cases.random");
            run_msg(m);
        }
    });
}
