// Independent OSC 1.0 reference encoder / strict decoder, written from the
// specification text (shares no code with rtosc.c).  DESIGN.md C01.
#pragma once
#include <stdint.h>
#include <string.h>
#include <string>
#include <vector>
#include "vh.h"

namespace ref {

typedef std::vector<unsigned char> bytes;

// One argument.  For T F N I (and never for '[' ']') there is no payload.
struct Val {
    char type = 'i';
    uint32_t u32 = 0;          // i c r f (raw bits)
    uint64_t u64 = 0;          // h t d (raw bits)
    unsigned char m[4] = {0, 0, 0, 0};
    std::string s;             // s S (no embedded NUL)
    bytes blob;                // b
    bool blob_null = false;    // b passed with NULL data pointer -> zeros
    // decode-only: offsets into the message
    size_t off = 0;
};

static inline bool carries(char t)
{
    return strchr("ifsbhtdScrm", t) != 0 && t != 0;
}
static inline bool is_tag(char t) { return t && strchr("ifsbhtdScrmTFNI", t) != 0; }

static inline void pad4(bytes &b) { while(b.size() % 4) b.push_back(0); }
static inline void put_str(bytes &b, const std::string &s)
{
    b.insert(b.end(), s.begin(), s.end());
    b.push_back(0);
    pad4(b);
}
static inline void put32(bytes &b, uint32_t v)
{
    for(int k = 3; k >= 0; --k) b.push_back((v >> (8 * k)) & 0xff);
}
static inline void put64(bytes &b, uint64_t v)
{
    for(int k = 7; k >= 0; --k) b.push_back((v >> (8 * k)) & 0xff);
}

// `types` may contain '[' and ']'; `vals` has one entry per non-bracket tag, in order
static inline bytes encode(const std::string &addr, const std::string &types, const std::vector<Val> &vals)
{
    bytes b;
    put_str(b, addr);
    put_str(b, "," + types);
    size_t vi = 0;
    for(char t : types) {
        if(t == '[' || t == ']') continue;
        const Val &v = vals[vi++];
        switch(t) {
            case 'i': case 'c': case 'r': case 'f': put32(b, v.u32); break;
            case 'h': case 't': case 'd': put64(b, v.u64); break;
            case 'm': b.insert(b.end(), v.m, v.m + 4); break;
            case 's': case 'S': put_str(b, v.s); break;
            case 'b':
                put32(b, (uint32_t)v.blob.size());
                b.insert(b.end(), v.blob.begin(), v.blob.end());
                pad4(b);
                break;
            default: break; // T F N I
        }
    }
    return b;
}

static inline uint32_t get32(const unsigned char *p)
{ return ((uint32_t)p[0] << 24) | ((uint32_t)p[1] << 16) | ((uint32_t)p[2] << 8) | p[3]; }
static inline uint64_t get64(const unsigned char *p)
{ return ((uint64_t)get32(p) << 32) | get32(p + 4); }

struct Decoded {
    bool ok = false;
    bool known_tags = true;   // every tag is one of the 15 value tags or a bracket
    std::string why;
    std::string addr, types;
    std::vector<Val> vals;    // one per non-bracket tag
    size_t length = 0;        // bytes consumed
};

// reads an OSC-string at off: NUL terminated inside [off,n), padded with NULs to 4
static inline bool get_str(const unsigned char *p, size_t n, size_t &off, std::string &out, bool strict_pad = true)
{
    size_t e = off;
    while(e < n && p[e]) ++e;
    if(e >= n) return false;
    out.assign((const char *)p + off, e - off);
    size_t end = (e + 4) & ~(size_t)3;     // at least one NUL, up to the next multiple of 4
    // offsets are relative to message start which is 4-aligned by construction
    if(end > n) return false;
    if(strict_pad)
        for(size_t k = e; k < end; ++k) if(p[k]) return false;
    off = end;
    return true;
}

// Decoder of one message occupying exactly n bytes.  strict: padding bytes must
// be NUL and unknown tags are an error; lenient: padding content is ignored and
// unknown tags are taken to carry no payload (known_tags=false is reported).
static inline Decoded decode(const unsigned char *p, size_t n, bool strict = true)
{
    Decoded d;
    size_t off = 0;
    if(n % 4) { d.why = "length not multiple of 4"; return d; }
    if(!get_str(p, n, off, d.addr, strict)) { d.why = "bad address"; return d; }
    std::string tt;
    if(!get_str(p, n, off, tt, strict)) { d.why = "bad type tag string"; return d; }
    if(tt.empty() || tt[0] != ',') { d.why = "no comma"; return d; }
    d.types = tt.substr(1);
    for(char t : d.types) {
        if(t == '[' || t == ']') continue;
        Val v;
        v.type = t;
        v.off = off;
        switch(t) {
            case 'i': case 'c': case 'r': case 'f':
                if(off + 4 > n) { d.why = "truncated 32"; return d; }
                v.u32 = get32(p + off); off += 4; break;
            case 'h': case 't': case 'd':
                if(off + 8 > n) { d.why = "truncated 64"; return d; }
                v.u64 = get64(p + off); off += 8; break;
            case 'm':
                if(off + 4 > n) { d.why = "truncated midi"; return d; }
                memcpy(v.m, p + off, 4); off += 4; break;
            case 's': case 'S':
                if(!get_str(p, n, off, v.s, strict)) { d.why = "bad string arg"; return d; }
                break;
            case 'b': {
                if(off + 4 > n) { d.why = "truncated blob len"; return d; }
                uint32_t len = get32(p + off);
                off += 4;
                if(len > n || off + (size_t)len > n) { d.why = "blob exceeds"; return d; }
                v.blob.assign(p + off, p + off + len);
                size_t end = off + len;
                size_t pe = (end + 3) & ~(size_t)3;
                if(pe > n) { d.why = "blob pad exceeds"; return d; }
                off = pe;
                break;
            }
            case 'T': case 'F': case 'N': case 'I': break;
            default: d.known_tags = false; if(strict) { d.why = "unknown tag"; return d; } break;
        }
        d.vals.push_back(v);
    }
    d.length = off;
    d.ok = (off == n);
    if(!d.ok) d.why = "trailing bytes";
    return d;
}

// bundle: "#bundle\0", 8 byte time tag, then (size32, element)*
static inline bytes bundle(uint64_t tt, const std::vector<bytes> &elems)
{
    bytes b;
    put_str(b, "#bundle");
    put64(b, tt);
    for(auto &e : elems) {
        put32(b, (uint32_t)e.size());
        b.insert(b.end(), e.begin(), e.end());
    }
    return b;
}

static inline std::string render(const std::string &addr, const std::string &types, const std::vector<Val> &vals)
{
    std::string o = vh::vis(addr) + " ," + types + " ";
    size_t vi = 0;
    for(char t : types) {
        if(t == '[' || t == ']') continue;
        const Val &v = vals[vi++];
        switch(t) {
            case 'i': case 'c': case 'r': case 'f': o += vh::fmt("%c:%08x ", t, v.u32); break;
            case 'h': case 't': case 'd': o += vh::fmt("%c:%016llx ", t, (unsigned long long)v.u64); break;
            case 'm': o += vh::fmt("m:%02x%02x%02x%02x ", v.m[0], v.m[1], v.m[2], v.m[3]); break;
            case 's': case 'S': o += std::string(1, t) + ":\"" + vh::vis(v.s) + "\" "; break;
            case 'b': o += "b:" + std::string(v.blob_null ? "NULL*" : "") + std::to_string(v.blob.size()) + ":" + vh::hexs(v.blob.data(), v.blob.size() > 24 ? 24 : v.blob.size()) + " "; break;
            default: break;
        }
    }
    return o;
}

} // namespace ref
