// C03 — realtime safety: the message path never allocates and never locks.
// The harness executable interposes the allocator and the pthread locking
// functions; a thread-local flag marks realtime sections; every intercepted
// call inside a section is a violation (backtrace recorded).  Variant: plain
// (AddressSanitizer would own malloc).
#include <execinfo.h>
#include <dlfcn.h>
#include <semaphore.h>
#include <new>
#include "oscgen.h"
#include "treegen.h"
#include <rtosc/thread-link.h>
#include <rtosc/port-sugar.h>
using namespace vh;

// ---------------------------------------------------------------- interposition
extern "C" {
void *__libc_malloc(size_t); void __libc_free(void *); void *__libc_calloc(size_t, size_t);
void *__libc_realloc(void *, size_t); void *__libc_memalign(size_t, size_t);
}
static thread_local int rt_section = 0;
struct Viol { const char *what; void *bt[24]; int n; };
static Viol g_viol[64];
static int g_nviol = 0;
static uint64_t g_viol_total = 0;
static uint64_t g_intercepted_outside = 0;
static inline void note(const char *what)
{
    if(!rt_section) { ++g_intercepted_outside; return; }
    ++g_viol_total;
    if(g_nviol < 64) {
        int keep = rt_section; rt_section = 0;          // backtrace() itself may allocate on first use
        Viol &v = g_viol[g_nviol++];
        v.what = what;
        v.n = backtrace(v.bt, 24);
        rt_section = keep;
    }
}
extern "C" {
void *malloc(size_t n) { note("malloc"); return __libc_malloc(n); }
void free(void *p) { if(p) note("free"); __libc_free(p); }
void *calloc(size_t a, size_t b) { note("calloc"); return __libc_calloc(a, b); }
void *realloc(void *p, size_t n) { note("realloc"); return __libc_realloc(p, n); }
void *memalign(size_t a, size_t n) { note("memalign"); return __libc_memalign(a, n); }
void *aligned_alloc(size_t a, size_t n) { note("aligned_alloc"); return __libc_memalign(a, n); }
int posix_memalign(void **out, size_t a, size_t n) { note("posix_memalign"); *out = __libc_memalign(a, n); return *out ? 0 : 12; }
}
void *operator new(size_t n) { note("operator new"); void *p = __libc_malloc(n ? n : 1); if(!p) abort(); return p; }
void *operator new[](size_t n) { note("operator new[]"); void *p = __libc_malloc(n ? n : 1); if(!p) abort(); return p; }
void operator delete(void *p) noexcept { if(p) note("operator delete"); __libc_free(p); }
void operator delete[](void *p) noexcept { if(p) note("operator delete[]"); __libc_free(p); }
void operator delete(void *p, size_t) noexcept { if(p) note("operator delete"); __libc_free(p); }
void operator delete[](void *p, size_t) noexcept { if(p) note("operator delete[]"); __libc_free(p); }

#define LOCKFN(name, proto, args) \
    extern "C" int name proto { static int (*real) proto = 0; if(!real) real = (int (*) proto)dlsym(RTLD_NEXT, #name); note(#name); return real args; }
LOCKFN(pthread_mutex_lock, (pthread_mutex_t *m), (m))
LOCKFN(pthread_mutex_trylock, (pthread_mutex_t *m), (m))
LOCKFN(pthread_mutex_timedlock, (pthread_mutex_t *m, const struct timespec *t), (m, t))
LOCKFN(pthread_rwlock_rdlock, (pthread_rwlock_t *m), (m))
LOCKFN(pthread_rwlock_wrlock, (pthread_rwlock_t *m), (m))
LOCKFN(pthread_spin_lock, (pthread_spinlock_t *m), (m))
LOCKFN(pthread_cond_wait, (pthread_cond_t *c, pthread_mutex_t *m), (c, m))
LOCKFN(sem_wait, (sem_t *s), (s))

struct RT { RT() { ++rt_section; } ~RT() { --rt_section; } };

static std::string g_desc;
static void judge(const char *bucket)
{
    count(std::string("rt.") + bucket);
    if(!g_nviol) return;
    // symbolise outside the section
    for(int i = 0; i < g_nviol; ++i) {
        Viol &v = g_viol[i];
        char **sy = backtrace_symbols(v.bt, v.n);
        std::string bt, site;
        for(int k = 2; k < v.n && k < 12; ++k) { std::string f = sy ? sy[k] : "?"; size_t a = f.find('('), b = f.find('+', a == std::string::npos ? 0 : a); std::string fn = (a != std::string::npos && b != std::string::npos && b > a + 1) ? f.substr(a + 1, b - a - 1) : f; bt += fn + " < "; if(site.empty() && fn.find("operator") == std::string::npos && fn.find("_Z") == 0) site = fn; }
        free(sy);
        fail(std::string("rt_violation_") + bucket, {v.what}, g_desc, std::string(v.what) + " called inside the realtime section (" + std::to_string(g_viol_total) + " intercepted calls): " + bt, "no allocation, no lock");
    }
    g_nviol = 0; g_viol_total = 0;
}

// ---------------------------------------------------------------- sinks without allocation
struct Sink : rtosc::RtData {
    char last[8192];
    unsigned nrep = 0, nbc = 0;
    void reply(const char *m) override { size_t l = rtosc_message_length(m, 8192); memcpy(last, m, l < sizeof last ? l : sizeof last); ++nrep; }
    void broadcast(const char *m) override { size_t l = rtosc_message_length(m, 8192); memcpy(last, m, l < sizeof last ? l : sizeof last); ++nbc; }
    using rtosc::RtData::reply;
    using rtosc::RtData::broadcast;
};

// ---------------------------------------------------------------- the macro zoo
struct Leaf {
    char c; int i; float f; bool t; int o; char s[16]; float af[4]; int ai[4]; bool at[4]; int ao[4];
    int a_really_long_parameter_name;
    static const rtosc::Ports ports;
};
struct Mid {
    Leaf leaf; Leaf many[3]; Leaf *ptr; Leaf *nul; Leaf *ptrs[2]; int x;
    static const rtosc::Ports ports;
};
struct Root {
    Mid mid; int vol; float another_quite_long_port_name;
    static const rtosc::Ports ports;
};
#define rObject Leaf
const rtosc::Ports Leaf::ports = {
    rParam(c, "char"), rParamI(i, rLinear(-100, 100), "int"), rParamF(f, rLinear(-1, 1), "float"), rToggle(t, "toggle"),
    rOption(o, rOptions(sine, saw, square), "option"), rString(s, 16, "string"),
    rArrayF(af, 4, rLinear(0, 1), "floats"), rArrayI(ai, 4, "ints"), rArrayT(at, 4, "toggles"), rArrayOption(ao, 4, rOptions(x, y, z), "options"),
    rParamI(a_really_long_parameter_name, rLinear(0, 10), "long name"),
};
#undef rObject
#define rObject Mid
const rtosc::Ports Mid::ports = {
    rRecur(leaf, "leaf"), rRecurs(many, 3, "many"), rRecurp(ptr, "ptr"), rRecurp(nul, "null pointer"), rRecursp(ptrs, 2, "ptrs"), rParamI(x, "x"),
};
#undef rObject
#define rObject Root
const rtosc::Ports Root::ports = {
    rRecur(mid, "mid"), rParamI(vol, rLinear(0, 127), "volume"), rParamF(another_quite_long_port_name, rLinear(0, 1), "long"),
};
#undef rObject

static Root g_root;
static Leaf g_l1, g_l2, g_l3;

static void run_zoo(Rng &r)
{
    static const char *LEAFP[] = {"c", "i", "f", "t", "o", "s", "af2", "ai3", "at0", "ao1", "a_really_long_parameter_name", "nothere", "af9", "i/extra"};
    static const char *MIDP[] = {"leaf/", "many0/", "many2/", "ptr/", "nul/", "ptrs1/", "many3/", "bogus/"};
    char msgs[24][256];
    int n = 0;
    std::string desc = "zoo:";
    for(; n < 24; ++n) {
        std::string addr;
        int depth = (int)r.below(3);
        const char *leaf = LEAFP[r.below(14)];
        if(depth == 0) { static const char *RP[] = {"/vol", "/another_quite_long_port_name", "/mid/x", "/zzz", "/mid/yyy"}; addr = RP[r.below(5)]; leaf = addr.c_str() + addr.rfind('/') + 1; }
        else addr = std::string("/mid/") + MIDP[r.below(8)] + leaf;
        std::string lf = addr.substr(addr.rfind('/') + 1);
        bool query = r.chance(0.3);
        char t = 0;
        if(lf == "c") t = 'c'; else if(lf == "i" || lf == "x" || lf == "vol" || lf[0] == 'a' && lf[1] == 'i') t = 'i';
        else if(lf == "f" || lf.compare(0, 2, "af") == 0 || lf == "another_quite_long_port_name") t = 'f'; else if(lf == "t" || lf.compare(0, 2, "at") == 0) t = 'T';
        else if(lf == "o" || lf.compare(0, 2, "ao") == 0) t = r.chance(0.5) ? 'S' : 'i'; else if(lf == "s") t = 's'; else if(lf == "a_really_long_parameter_name") t = 'i'; else t = 'i';
        if(r.chance(0.1)) t = "ifsT"[r.below(4)];   // foreign type tags
        if(query) rtosc_message(msgs[n], 256, addr.c_str(), "");
        else switch(t) {
            case 'c': rtosc_message(msgs[n], 256, addr.c_str(), "c", (int)r.range(0, 127)); break;
            case 'i': rtosc_message(msgs[n], 256, addr.c_str(), "i", (int)r.range(-200, 200)); break;
            case 'f': rtosc_message(msgs[n], 256, addr.c_str(), "f", (double)r.range(-8, 8) / 4); break;
            case 'T': rtosc_message(msgs[n], 256, addr.c_str(), r.chance(0.5) ? "T" : "F"); break;
            case 'S': rtosc_message(msgs[n], 256, addr.c_str(), "S", r.chance(0.5) ? "saw" : "y"); break;
            case 's': rtosc_message(msgs[n], 256, addr.c_str(), "s", "some string value longer than sixteen"); break;
        }
        desc += " " + addr + (query ? "?" : std::string(":") + t);
    }
    g_desc = desc;
    describe_case(desc);
    distinct(hash_str(desc));
    sample(jstr(desc.substr(0, 300)), 3);
    Sink d;
    char loc[256];
    for(int with_loc = 0; with_loc < 2; ++with_loc) {
        for(int k = 0; k < n; ++k) {
            d.obj = &g_root;
            // without location tracking the sugar callbacks still reply to d.loc: the application pre-fills it
            // (as subtree_serialize's VarCapture does) and leaves loc_size 0
            if(with_loc) { d.loc = loc; d.loc_size = sizeof loc; } else { strcpy(loc, msgs[k]); d.loc = loc; d.loc_size = 0; }
            unsigned before = d.nrep + d.nbc;
            {
                RT rt;
                Root::ports.dispatch(msgs[k], d, true);
            }
            bool hit = d.nrep + d.nbc != before;
            judge(with_loc ? (hit ? "sugar_dispatch_loc_hit" : "sugar_dispatch_loc_miss") : (hit ? "sugar_dispatch_noloc_hit" : "sugar_dispatch_noloc_miss"));
        }
    }
}

// ---------------------------------------------------------------- generated trees
static void run_tree(Rng &r)
{
    tg::GenOpts o;
    o.max_ports = 20; o.max_depth = 3; o.long_names = true;
    if(r.chance(0.1)) { o.max_ports = 90; o.max_depth = 2; o.p_dup = 0; count("tables.big_root_table_generated"); }   // tables with far more ports than usual (first use is already realtime)
    tg::Tree t;
    tg::gen_tree(t, r, o);
    std::string tdesc = tg::render_table(t.root);
    g_desc = "tree " + tdesc.substr(0, 500);
    describe_case(g_desc);
    distinct(hash_str(tdesc));
    sample(jstr(g_desc.substr(0, 250)), 3);
    bool any_hashed = false, any_enum = false, any_failed = false, any_default = false;
    for(auto &tb : t.tables) { if(tb->lib->verif_lookup_kind()) any_hashed = true; else if(tb->has_hash_enum()) any_enum = true; else any_failed = true; if(tb->has_default) any_default = true; }
    if(any_hashed) count("tables.hashed"); if(any_enum) count("tables.enumerated"); if(any_failed) count("tables.hash_failed"); if(any_default) count("tables.with_default");
    // addresses: walked ones + mutated + junk + oversized
    std::vector<tg::Walked> w;
    tg::ref_walk(t.root, "", w);
    std::vector<std::string> addrs;
    for(size_t i = 0; i < w.size() && addrs.size() < 60; i += (w.size() / 60 + 1)) addrs.push_back(w[i].addr);
    size_t nb = addrs.size();
    for(size_t i = 0; i < nb; ++i) { std::string a = addrs[i]; if(a.empty()) continue; size_t p = (size_t)r.below(a.size()); if(r.chance(0.5)) a[p] = 'z'; else a += "x"; addrs.push_back(a); }
    addrs.push_back("nothing_like_this");
    addrs.push_back(std::string(300, 'a') + "/" + std::string(200, 'b'));
    std::vector<std::string> msgs;
    static const char *TY[] = {"", "i", "f", "s", "ifsbhtdScrmTFNI"};
    for(auto &a : addrs) {
        gen::Msg m; m.addr = "/" + a; m.types = TY[r.below(5)];
        for(char ty : m.types) m.vals.push_back(gen::gen_val(r, ty, 2));
        ref::bytes b = m.encode();
        msgs.push_back(std::string((const char *)b.data(), b.size()));
    }
    tg::g_quiet = true;
    char loc[1024];
    for(int with_loc = 0; with_loc < 2; ++with_loc)
        for(auto &mm : msgs) {
            rtosc::RtData d;
            d.obj = tg::root_token();
            if(with_loc) { d.loc = loc; d.loc_size = sizeof loc; }
            uint64_t before = tg::g_quiet_calls, bd = tg::g_quiet_default_calls;
            {
                RT rt;
                t.root->lib->dispatch(mm.c_str(), d, true);
            }
            bool hit = tg::g_quiet_calls != before;
            if(tg::g_quiet_default_calls != bd) judge("tree_dispatch_default_handler");
            else judge(with_loc ? (hit ? "tree_dispatch_loc_hit" : "tree_dispatch_loc_miss") : (hit ? "tree_dispatch_noloc_hit" : "tree_dispatch_noloc_miss"));
        }
    tg::g_quiet = false;
}

// ---------------------------------------------------------------- codec + ThreadLink
static void run_codec(Rng &r)
{
    gen::Msg m = gen::gen_msg(r, r.chance(0.2) ? 60 : 10, true);
    if(r.chance(0.15)) { m.types.clear(); m.vals.clear(); int n = (int)r.range(33, 48); for(int i = 0; i < n; ++i) { char t = "ifhds"[r.below(5)]; m.types += t; m.vals.push_back(gen::gen_val(r, t, 2)); } count("codec.more_than_32_values"); }
    for(auto &v : m.vals) if(v.blob.size() > 500) v.blob.resize(500);
    ref::bytes rb = m.encode();
    g_desc = "codec " + m.render().substr(0, 600);
    describe_case(g_desc);
    distinct(hash_bytes(rb.data(), rb.size()));
    sample(jstr(g_desc.substr(0, 250)), 3);
    gen::ArgPack ap(m);
    gen::VaPack vp(m);
    bool va_ok = gen::varargs_exact(m);
    std::vector<char> buf(rb.size() + 64), small(rb.size() > 8 ? rb.size() - 4 : 4);
    std::string pat = m.addr + ":" + m.types;
    size_t l = 0;
    { RT rt; l = rtosc_amessage(buf.data(), buf.size(), m.addr.c_str(), m.types.c_str(), ap.data()); }
    judge("build_amessage");
    // the default reply/broadcast forwarding with payloads up to and beyond its 8 KiB staging buffer
    {
        static Sink sink;
        static std::string big(12000, 'x');
        size_t n = r.chance(0.5) ? (size_t)r.range(0, 300) : (size_t)r.range(7900, 11000);
        char saved = big[n]; big[n] = 0;
        { RT rt; sink.reply("/a/reply", "s", big.c_str()); sink.broadcast("/a/broadcast", "is", 7, big.c_str()); sink.reply("/a/blob", "b", (int)n, big.data()); }
        big[n] = saved;
        judge(n > 7000 ? "reply_forwarding_large" : "reply_forwarding_small");
    }
    if(va_ok) { { RT rt; vp.call(buf.data(), buf.size(), m); } judge("build_vmessage"); }
    if(va_ok && m.ncarry() <= 3) { { RT rt; gen::call_true_varargs(buf.data(), buf.size(), m, ap); } judge("build_message_varargs"); }
    { RT rt; rtosc_amessage(NULL, 0, m.addr.c_str(), m.types.c_str(), ap.data()); if(va_ok) vp.call(NULL, 0, m); } judge("size_query");
    { RT rt; rtosc_amessage(small.data(), small.size(), m.addr.c_str(), m.types.c_str(), ap.data()); if(va_ok) vp.call(small.data(), small.size(), m); } judge("build_does_not_fit");
    {
        RT rt;
        volatile size_t sink = rtosc_message_length(buf.data(), l) + rtosc_valid_message_p(buf.data(), l);
        sink += rtosc_narguments(buf.data());
        const char *as = rtosc_argument_string(buf.data()); sink += as[0];
        unsigned n = rtosc_narguments(buf.data());
        for(unsigned i = 0; i < n; ++i) { sink += rtosc_type(buf.data(), i); rtosc_arg_t a = rtosc_argument(buf.data(), i); sink += a.i; }
        rtosc_arg_itr_t it = rtosc_itr_begin(buf.data());
        while(!rtosc_itr_end(it)) { rtosc_arg_val_t av = rtosc_itr_next(&it); sink += av.type; }
        (void)sink;
    }
    judge("measure_and_read");
    {
        const char *pp = pat.c_str();
        RT rt;
        const char *pe;
        volatile bool x = rtosc_match(pp, buf.data(), &pe);
        x = rtosc_match_path("foo#12/", buf.data(), &pe) != 0;
        x = rtosc_match("{a,b}x#3:i:f", buf.data(), 0);
        (void)x;
    }
    judge("match");
    // bundles
    {
        std::vector<char> e1(rb.size() + 8, 0), e2(64, 0), bb(2 * rb.size() + 200);
        memcpy(e1.data(), rb.data(), rb.size());
        rtosc_message(e2.data(), 56, "/second", "if", 7, 2.5);
        size_t bl;
        { RT rt; bl = rtosc_bundle(bb.data(), bb.size(), r.next(), 2, e1.data(), e2.data()); }
        judge("bundle_build");
        {
            RT rt;
            volatile size_t s = rtosc_bundle_p(bb.data()) + rtosc_bundle_elements(bb.data(), bl) + rtosc_bundle_size(bb.data(), 1) + rtosc_bundle_timetag(bb.data()) + rtosc_message_length(bb.data(), bl);
            const char *f = rtosc_bundle_fetch(bb.data(), 1); s += f[0];
            (void)s;
        }
        judge("bundle_read");
        { RT rt; rtosc_bundle(bb.data(), 20, 1, 2, e1.data(), e2.data()); }
        judge("bundle_does_not_fit");
    }
}

static void run_threadlink(Rng &r)
{
    size_t maxmsg = (size_t)(4 * r.range(6, 32)), n = (size_t)r.range(2, 8);
    rtosc::ThreadLink tl(maxmsg, n);       // construction: outside the realtime section
    g_desc = fmt("ThreadLink(%zu,%zu) history", maxmsg, n);
    describe_case(g_desc);
    distinct(hash_str(g_desc, r.next() & 0xffff));
    int ops = (int)r.range(10, 80);
    bool lookahead_heavy = r.chance(0.25);   // many small messages in flight, all of them looked at before the first is consumed
    char blob[256];
    memset(blob, 7, sizeof blob);
    char raw[512];
    for(int o = 0; o < ops; ++o) {
        int k = (int)r.below(8);
        int blen = (int)r.range(0, (int64_t)maxmsg + 16);
        if(lookahead_heavy) { blen = (int)r.below(3); if(k == 5 || k == 6) k = r.chance(0.8) ? 7 : k; else if(k == 4) k = 0; }
        if(blen > 250) blen = 250;
        switch(k) {
            case 0: case 1: { RT rt; tl.write("/m", "ib", o, blen, blob); } judge("threadlink_write"); break;
            case 2: { rtosc_arg_t a[2]; a[0].i = o; a[1].b.len = blen; a[1].b.data = (uint8_t *)blob; { RT rt; tl.writeArray("/m", "ib", a); } judge("threadlink_writeArray"); break; }
            case 3: { rtosc_message(raw, sizeof raw, "/raw", "ib", o, blen, blob); { RT rt; tl.raw_write(raw); } judge("threadlink_raw_write"); break; }
            case 4: { bool h; { RT rt; h = tl.hasNext(); } judge(h ? "threadlink_hasNext_true" : "threadlink_hasNext_false"); break; }
            case 5: case 6: { bool h = tl.hasNext(); if(h) { { RT rt; volatile const char *m = tl.read(); m = tl.peak(); (void)m; } judge("threadlink_read"); } break; }
            case 7: { if(tl.hasNextLookahead()) { { RT rt; volatile const char *m = tl.read_lookahead(); (void)m; } judge("threadlink_read_lookahead"); } break; }
        }
    }
}

int main(int argc, char **argv)
{
    // warm up everything that allocates lazily (backtrace, dlsym caches, stdio)
    { void *bt[4]; backtrace(bt, 4); pthread_mutex_t mx = PTHREAD_MUTEX_INITIALIZER; pthread_mutex_lock(&mx); pthread_mutex_unlock(&mx); pthread_mutex_trylock(&mx); pthread_mutex_unlock(&mx); }
    memset(&g_root, 0, sizeof g_root);
    g_root.mid.ptr = &g_l1; g_root.mid.nul = 0; g_root.mid.ptrs[0] = &g_l2; g_root.mid.ptrs[1] = &g_l3;
    // self test of the monitor: an allocation inside a section must be seen
    { { RT rt; void *p = malloc(10); free(p); } if(g_nviol != 2) { fprintf(stderr, "interposition self-test failed (%d)\n", g_nviol); return 2; } g_nviol = 0; g_viol_total = 0; }
    { { RT rt; std::string *s = new std::string(40, 'x'); delete s; } if(g_nviol < 2) { fprintf(stderr, "operator new interposition self-test failed (%d)\n", g_nviol); return 2; } g_nviol = 0; g_viol_total = 0; }
    { pthread_mutex_t mx = PTHREAD_MUTEX_INITIALIZER; { RT rt; pthread_mutex_lock(&mx); } pthread_mutex_unlock(&mx); if(g_nviol != 1) { fprintf(stderr, "mutex interposition self-test failed (%d)\n", g_nviol); return 2; } g_nviol = 0; g_viol_total = 0; }
    int rc = main_loop(argc, argv, 0xC03, [](uint64_t i, Rng &r) {
        switch(i % 8) {
            case 0: case 1: run_tree(r); break;
            case 2: case 3: run_zoo(r); break;
            case 4: run_threadlink(r); break;
            default: run_codec(r); break;
        }
    });
    return rc;
}
