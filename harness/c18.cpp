// C18 — path utilities: '..' collapsing, lookup by address, child search.
#include "treegen.h"
#include "refosc.h"
#include <rtosc/rtosc.h>
using namespace vh;

// ---------------------------------------------------------------- collapsePath
static void run_collapse(Rng &r)
{
    static const char *NAMES[] = {"a", "b", "foo", "VoicePar0", "x", "Enabled", "a..", "...", ".", "..a", "part12", "kit3", "longcomponentname", "q.r", "zz"};
    int n = (int)r.range(1, 8);
    std::vector<std::string> comp;
    for(int i = 0; i < n; ++i) comp.push_back(r.chance(0.4) ? ".." : NAMES[r.below(15)]);
    std::string path;
    for(auto &c : comp) path += "/" + c;
    std::vector<std::string> st;
    for(auto &c : comp) { if(c == "..") { if(!st.empty()) st.pop_back(); } else st.push_back(c); }
    std::string expect;
    for(auto &c : st) expect += "/" + c;
    describe_case("collapse " + path);
    distinct(hash_str(path));
    sample(jstr("collapsePath(" + path + ")"), 4);
    // exact-size heap buffer
    char *h = (char *)malloc(path.size() + 1);
    memcpy(h, path.c_str(), path.size() + 1);
    char *res = rtosc::Ports::collapsePath(h);
    count("collapse.paths");
    if(st.size() != comp.size()) count("collapse.with_dotdot");
    if(st.empty()) count("collapse.everything_cancelled");
    std::vector<std::string> tags;
    if(st.empty()) tags.push_back("everything_cancelled");
    if(res < h || res > h + path.size()) fail("collapse_outside_buffer", tags, path, fmt("offset %ld", (long)(res - h)), "inside the buffer");
    else if(expect != res) fail("collapse_result", tags, path, vis(res, strlen(res)), expect);
    free(h);
}

// ---------------------------------------------------------------- apropos over walked addresses
struct WalkRec { const rtosc::Port *port; std::string addr; };
static void walker_cb(const rtosc::Port *p, const char *name, const char *, const rtosc::Ports &, void *data, void *)
{
    ((std::vector<WalkRec> *)data)->push_back(WalkRec{p, name});
}

// is any string of one sibling a prefix of a string of another sibling?
static bool prefix_clash(const tg::Table *tb)
{
    std::vector<std::vector<std::string>> forms;
    for(auto &p : tb->ports) {
        std::vector<std::string> f;
        tg::expand_name(p->name, 0, "", f);
        f.push_back(p->name);
        if(f.size() > 40) f.resize(40);
        forms.push_back(f);
    }
    for(size_t i = 0; i < forms.size(); ++i)
        for(size_t j = 0; j < forms.size(); ++j) {
            if(i == j) continue;
            for(auto &a : forms[i]) for(auto &b : forms[j]) {
                std::string a2 = a, b2 = b;
                if(!a2.empty() && a2.back() == '/') a2.pop_back();
                if(b2.compare(0, a2.size(), a2) == 0) return true;
            }
        }
    return false;
}

static std::string meta_block(Rng &r)
{
    if(r.chance(0.25)) return "";
    std::string b;
    int n = (int)r.range(1, 4);
    for(int i = 0; i < n; ++i) {
        b += ":"; b += "kmdx"[r.below(4)]; if(r.chance(0.5)) b += std::to_string(r.below(100));
        b.push_back('\0');
        if(r.chance(0.6)) { b += "="; int l = (int)r.range(0, 12); for(int k = 0; k < l; ++k) b += (char)r.range(0x20, 0x7e); b.push_back('\0'); }
    }
    return b;   // std::string adds the final NUL
}

static void run_apropos(Rng &r)
{
    tg::GenOpts o;
    o.max_ports = 10; o.max_depth = 3; o.allow_derived = false; o.p_dup = 0; o.p_default = 0; o.max_enum = 12; o.p_slash_leaf = 0.12;
    tg::Tree t;
    t.root = tg::gen_table(t, r, o, 0);
    tg::realize(t, t.root, r, o);
    std::string tdesc = tg::render_table(t.root);
    describe_case("apropos " + tdesc);
    distinct(hash_str(tdesc));
    sample(jstr("apropos over " + tdesc.substr(0, 200)), 4);
    char buf[1024];
    memset(buf, 0, sizeof buf);
    std::vector<WalkRec> w;
    rtosc::walk_ports(t.root->lib, buf, sizeof buf, &w, walker_cb);
    // eligibility: no prefix clash in any table on the way to the port
    std::map<const tg::Table *, bool> clash;
    for(auto &tb : t.tables) clash[tb.get()] = prefix_clash(tb.get());
    for(auto &rec : w) {
        // find description of the port
        const tg::PortDesc *pd = 0;
        for(auto *q : t.all_ports) if(q && &(*q->owner->lib)[(unsigned)q->index_in_table] == rec.port) pd = q;
        if(!pd) { fail("walk_unknown_port", {}, tdesc, rec.addr, "a port of the tree"); continue; }
        bool eligible = true;
        // all tables from the root down to pd->owner
        std::function<bool(const tg::Table *)> path_ok = [&](const tg::Table *tb) -> bool {
            if(tb == pd->owner) return !clash[tb];
            for(auto &p : tb->ports) if(p->sub) { if(path_ok(p->sub)) return !clash[tb]; }
            return false;
        };
        // (a table may be reachable; path_ok returns false if any table on the path clashes or is not on the path)
        eligible = path_ok(t.root);
        if(!eligible) { count("apropos.skipped_prefix_clash"); continue; }
        const rtosc::Port *got = t.root->lib->apropos(rec.addr.c_str());
        count("apropos.lookups");
        if(rec.addr.find_first_of("0123456789") != std::string::npos) count("apropos.lookups_enumerated");
        if(rec.addr.back() == '/') { count("apropos.lookups_leaf_with_trailing_slash"); if(std::count(rec.addr.begin(), rec.addr.end(), '/') >= 3) count("apropos.lookups_deep_leaf_with_trailing_slash"); }
        if(got != rec.port) fail("apropos_walked_address", {}, tdesc + " address=" + rec.addr, got ? std::string("port ") + got->name : "NULL", std::string("port ") + rec.port->name);
    }
}

// ---------------------------------------------------------------- path_search
struct Child { std::string name; std::string meta; };
static std::map<const char *, size_t> g_blocks;   // metadata pointer -> allocation size   // meta: bytes incl. final NUL, or empty
static void run_search(Rng &r)
{
    // a root table with a few sub tables; names with common prefixes, duplicates, "a/" next to "a/b"
    static const char *POOL[] = {"a/", "a/b", "a/b/", "a/x:", "a/y:", "b", "b2", "b2:i", "c/d/e:", "c/d/", "ab/", "a", "ab", "abc::f", "c/", "zz#4/", "zz#4/q", "m", "a/", "q/", "q/"};
    // the sub-table hangs below "ab/" or below the one-character "q/"
    const std::string subname = r.chance(0.6) ? "ab/" : "q/";
    for(auto &kv : g_blocks) free((void *)kv.first);
    g_blocks.clear();
    tg::DynPorts root, sub;
    std::deque<std::string> keep;
    std::vector<Child> rootc, subc;
    auto fill = [&](tg::DynPorts &dp, std::vector<Child> &cs, int n, bool may_sub) {
        for(int i = 0; i < n; ++i) {
            Child c;
            c.name = POOL[r.below(21)];
            if(r.chance(0.2)) c.name = std::string(1, "abcxyz"[r.below(6)]) + (r.chance(0.5) ? "/" : "") ;
            std::string mb = meta_block(r);
            const char *mp = 0;
            if(!mb.empty() || r.chance(0.5)) {
                // exact-size heap block so that reading past the metadata is an ASan report
                size_t nb = mb.empty() ? 1 : mb.size() + 1;
                char *h = (char *)malloc(nb);
                memcpy(h, mb.c_str(), nb);
                mp = h;
                g_blocks[h] = nb;
                c.meta = mb.empty() ? std::string() : std::string(mb.c_str(), mb.size() + 1);
            }
            keep.push_back(c.name);
            dp.add(rtosc::Port{keep.back().c_str(), mp, (may_sub && c.name == subname) ? &sub : nullptr, [](const char *, rtosc::RtData &) {}});
            cs.push_back(c);
        }
        dp.done();
    };
    fill(sub, subc, (int)r.range(0, 6), false);
    int nroot = r.chance(0.15) ? (int)r.range(17, 30) : (int)r.range(1, 12);
    fill(root, rootc, nroot, true);
    // location
    std::string loc = r.chance(0.4) ? "" : r.chance(0.5) ? "/" : "";
    const std::vector<Child> *children = &rootc;
    bool has_ab = false; size_t nab = 0;
    for(auto &c : rootc) if(c.name == subname) { has_ab = true; ++nab; }
    bool clash = false;
    if(subname == "ab/") { for(auto &c : rootc) if(c.name != "ab/" && (c.name.compare(0, 2, "ab") == 0 || c.name == "a" || c.name == "a/")) clash = true; }
    else { for(auto &c : rootc) if(c.name != "q/" && c.name.compare(0, 1, "q") == 0) clash = true; }
    if(has_ab && nab == 1 && !clash && r.chance(0.4)) {
        // spelled with or without the leading slash (upstream's test/path-search.cpp uses the relative form)
        loc = subname == "ab/" ? (r.chance(0.7) ? "/ab" : "ab") : (r.chance(0.5) ? "/q" : "q");
        children = &subc;
        if(loc.size() == 1) count("search.one_character_relative_location");
    }
    static const char *NEEDLES[] = {"", "", "a", "a/", "b", "ab", "c/d", "z", "a/b", "q"};
    std::string needle = NEEDLES[r.below(10)];
    int oi = (int)r.below(3);
    rtosc::path_search_opts opt = oi == 0 ? rtosc::path_search_opts::unmodified : oi == 1 ? rtosc::path_search_opts::sorted : rtosc::path_search_opts::sorted_and_unique_prefix;
    bool with_query = r.chance(0.3);
    std::string desc = "path_search root={";
    for(auto &c : rootc) desc += c.name + fmt("(%zuB) ", c.meta.size());
    desc += "} sub={";
    for(auto &c : subc) desc += c.name + fmt("(%zuB) ", c.meta.size());
    desc += "} loc='" + loc + "' needle='" + needle + "' opt=" + (oi == 0 ? "unmodified" : oi == 1 ? "sorted" : "sorted_and_unique_prefix") + (with_query ? " +query" : "");
    describe_case(desc);
    distinct(hash_str(desc));
    sample(jstr(desc.substr(0, 300)), 6);
    // reference
    std::vector<Child> exp;
    for(auto &c : *children) if(c.name.compare(0, needle.size(), needle) == 0) exp.push_back(c);
    if(oi >= 1) std::stable_sort(exp.begin(), exp.end(), [](const Child &a, const Child &b) { return a.name < b.name; });
    if(oi == 2) {
        std::vector<Child> f;
        std::string prev;
        bool have_prev = false;
        for(auto &c : exp) {
            if(have_prev && !prev.empty() && prev.back() == '/' && c.name.size() > prev.size() && c.name.compare(0, prev.size(), prev) == 0) continue;
            f.push_back(c); prev = c.name; have_prev = true;
        }
        exp = f;
    }
    count(fmt("search.opt_%d", oi));
    if(exp.size() > 16) count("search.more_than_16_results");
    if(oi == 2 && exp.size() != 0) { size_t all = 0; for(auto &c : *children) if(c.name.compare(0, needle.size(), needle) == 0) ++all; if(all != exp.size()) count("search.prefix_filtered"); }
    // ---- array API
    size_t max_ports = children->size() + 3 + (size_t)r.below(4);
    size_t max_args = max_ports * 2 + 2, max_types = max_args + 1;
    // exactly as many slots as there are matching children (plus the echoed query): the documented minimum
    {
        size_t all = 0; for(auto &c : *children) if(c.name.compare(0, needle.size(), needle) == 0) ++all;
        if(all && r.chance(0.25)) { max_ports = all + (with_query ? 1 : 0); max_args = max_ports * 2; max_types = max_args + 1; count("search.exact_fit_arrays"); }
    }
    std::vector<char> types(max_types, 'Z');
    std::vector<rtosc_arg_t> args(max_args);
    rtosc::path_search(root, loc.c_str(), needle.c_str(), types.data(), max_types, args.data(), max_args, opt, with_query);
    count("search.array_api");
    auto compare = [&](const char *who, const std::string &ty, const std::function<std::string(size_t)> &sarg, const std::function<std::string(size_t)> &barg) {
        size_t off = with_query ? 2 : 0;
        std::string ety(off, 's');
        for(size_t i = 0; i < exp.size(); ++i) ety += "sb";
        if(ty != ety) { fail(std::string(who) + "_types", {}, desc, ty, ety); return; }
        if(with_query && (sarg(0) != loc || sarg(1) != needle)) { fail(std::string(who) + "_query_echo", {}, desc, sarg(0) + "," + sarg(1), loc + "," + needle); return; }
        // names must agree position by position; metadata is compared as multiset among equal names (sort is not stable)
        for(size_t i = 0; i < exp.size(); ++i)
            if(sarg(off + 2 * i) != exp[i].name) { fail(std::string(who) + "_names", {exp.size() > 16 ? "more_than_16" : "upto_16"}, desc, fmt("result %zu = ", i) + sarg(off + 2 * i), exp[i].name); return; }
        for(size_t i = 0; i < exp.size();) {
            size_t j = i;
            while(j < exp.size() && exp[j].name == exp[i].name) ++j;
            std::vector<std::string> a, b;
            for(size_t k = i; k < j; ++k) { a.push_back(barg(off + 2 * k + 1)); b.push_back(exp[k].meta); }
            if(oi == 0) { if(a != b) { fail(std::string(who) + "_metadata", {}, desc, fmt("results %zu..%zu", i, j), "metadata bytes of the children in table order"); return; } }
            else { std::sort(a.begin(), a.end()); std::sort(b.begin(), b.end()); if(a != b) { fail(std::string(who) + "_metadata", {}, desc, fmt("results %zu..%zu: %s", i, j, hexs(a[0].data(), a[0].size()).c_str()), "metadata bytes: " + hexs(b[0].data(), b[0].size())); return; } }
            i = j;
        }
    };
    {
        std::string ty(types.data(), strnlen(types.data(), max_types));
        compare("array", ty,
                [&](size_t i) { return std::string(args[i].s ? args[i].s : "<null>"); },
                [&](size_t i) {
                    if(!args[i].b.data) return std::string();
                    size_t have = g_blocks.count((const char *)args[i].b.data) ? g_blocks[(const char *)args[i].b.data] : 0;
                    if((size_t)args[i].b.len > have) return fmt("<reported length %d exceeds the %zu-byte metadata block>", args[i].b.len, have);
                    return std::string((const char *)args[i].b.data, (size_t)args[i].b.len); });
    }
    // ---- message API
    char q[256], reply[8192];
    rtosc_message(q, sizeof q, "/path-search", "ss", loc.c_str(), needle.c_str());
    size_t rl = rtosc::path_search(root, q, max_ports, reply, sizeof reply, opt, with_query);
    count("search.message_api");
    if(!rl) { fail("message_reply_empty", {}, desc, "0", "a reply message"); return; }
    if(!rtosc_valid_message_p(reply, rl)) { fail("message_reply_malformed", {}, desc, "rtosc_valid_message_p false", "well-formed message"); return; }
    ref::Decoded d = ref::decode((const unsigned char *)reply, rl, true);
    if(!d.ok || d.addr != "/paths") { fail("message_reply_malformed", {}, desc, d.ok ? d.addr : d.why, "/paths message"); return; }
    compare("message", d.types,
            [&](size_t i) { return d.vals[i].s; },
            [&](size_t i) { return std::string((const char *)d.vals[i].blob.data(), d.vals[i].blob.size()); });
}

int main(int argc, char **argv)
{
    return main_loop(argc, argv, 0xC18, [](uint64_t i, Rng &r) {
        switch(i % 4) {
            case 0: case 1: run_collapse(r); break;
            case 2: run_apropos(r); break;
            default: run_search(r); break;
        }
    });
}
