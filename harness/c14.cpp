// C14 — parameter ports clamp to their declared range and report every change.
// The library's own macro callbacks (rParamCb, rParamFCb, ...) are combined with
// run-time generated names and metadata; oracle: per-kind reference evaluated on
// the generated metadata + full snapshot of the runtime object.
#include "vh.h"
#include <limits.h>
#include <math.h>
#include <deque>
#include <rtosc/ports.h>
#include <rtosc/port-sugar.h>
using namespace vh;

struct Zoo {
    char sc;                 // rParam on a signed char
    unsigned char uc;        // rParam on an unsigned char
    int iv;                  // rParamI
    float fv;                // rParamF
    double dv;               // rParamF on a double member
    bool tv;                 // rToggle
    int ov;                  // rOption
    char sv[12];             // rString (declared length 12)
    float af[8];             // rArrayF
    int ai[8];               // rArrayI (narrows to char by design)
    bool at[8];              // rArrayT
    int ao[8];               // rArrayOption
    int guard;
};
#define rObject Zoo
typedef std::function<void(const char *, rtosc::RtData &)> cb_t;
static cb_t CB_sc = rParamCb(sc), CB_uc = rParamCb(uc), CB_iv = rParamICb(iv), CB_fv = rParamFCb(fv), CB_dv = rParamFCb(dv), CB_tv = rToggleCb(tv),
            CB_ov = rOptionCb(ov), CB_sv = rStringCb(sv, 12), CB_af = rArrayFCb(af), CB_ai = rArrayICb(ai), CB_at = rArrayTCb(at),
            CB_ao = rArrayOptionCb(ao);
#undef rObject

enum Kind { K_SC, K_UC, K_I, K_F, K_T, K_O, K_S, K_FD, K_AF, K_AI, K_AT, K_AO, NKINDS };
static const char *KNAME[] = {"rParam(char)", "rParam(uchar)", "rParamI", "rParamF", "rToggle", "rOption", "rString", "rParamF(double)", "rArrayF", "rArrayI", "rArrayT", "rArrayOption"};
static const char *KSPEC[] = {"::c", "::c", "::i", "::f", "::T:F", "::i:c:S", "::s", "::f", "::f", "::i", "::T:F", "::i:c:S"};
static bool is_array(int k) { return k >= K_AF; }

struct DynPorts : rtosc::Ports {
    DynPorts() : Ports({}) {}
    void set(const std::vector<rtosc::Port> &p) { ports = p; refreshMagic(); }
};

struct Cap : rtosc::RtData {
    struct Msg { bool bcast; std::string bytes; };
    std::vector<Msg> got;
    void reply(const char *m) override { got.push_back({false, std::string(m, rtosc_message_length(m, 8192))}); }
    void broadcast(const char *m) override { got.push_back({true, std::string(m, rtosc_message_length(m, 8192))}); }
    using rtosc::RtData::reply;
    using rtosc::RtData::broadcast;
};

struct Config {
    int kind;
    std::string name, meta, full;
    bool has_min = false, has_max = false;
    double mn = 0, mx = 0;
    std::string smin, smax;
    int N = 0;                               // array length
    std::vector<std::string> opts;           // option symbols
    std::vector<int> optval;                 // their values
    bool split_map = false;
    cb_t cb;
};

static DynPorts g_leaf, g_root;
static Zoo g_z;

static std::string render_cfg(const Config &c)
{
    return std::string(KNAME[c.kind]) + " port \"" + c.full + "\" meta{" + (c.has_min ? "min=" + c.smin + " " : "") + (c.has_max ? "max=" + c.smax + " " : "") +
           (c.opts.empty() ? "" : fmt("%zu options", c.opts.size())) + "}";
}

static Config gen_config(Rng &r)
{
    Config c;
    c.kind = (int)r.below(NKINDS);
    static const char *NAMES[] = {"vol", "pan", "cutoff", "Penabled", "mode", "x", "detune", "label", "a_b", "depth"};
    c.name = NAMES[r.below(10)];
    int k = c.kind;
    bool numeric = k == K_SC || k == K_UC || k == K_I || k == K_F || k == K_FD || k == K_AF || k == K_AI || k == K_O || k == K_AO;
    c.meta = ":parameter";
    c.meta.push_back('\0');
    if(k == K_O || k == K_AO) {
        int no = (int)r.range(2, 6);
        // symbols: names, or numerals (rOptions(1,2,4,8)): the symbol "4" means the entry mapped to it, not the number 4
        static const char *SY_NAMES[] = {"sine", "saw", "square", "noise", "tri", "pulse"};
        static const char *SY_NUMS[] = {"1", "2", "4", "8", "16", "0"};
        static const char *SY_MIXED[] = {"-12", "0", "12", "off", "3", "24"};
        static const char *SY_CASE[] = {"M", "m", "aug", "Aug", "ms", "mS"};      // symbols are case sensitive
        int symkind = (int)r.below(6);
        const char **SY = symkind == 3 ? SY_NUMS : symkind == 4 ? SY_MIXED : symkind == 5 ? SY_CASE : SY_NAMES;
        if(symkind >= 3) count("options.numeral_symbols");
        // option values need not be contiguous, and other entries may stand between the mappings
        bool sparse = r.chance(0.3), split = r.chance(0.4);
        int splitpos = (int)r.range(1, no - 1);
        for(int i = 0; i < no; ++i) {
            int val = sparse && i == no - 1 ? i + 5 : i;
            if(split && i == splitpos) { c.meta += r.chance(0.5) ? ":default" : ":unit"; c.meta.push_back('\0'); c.meta += "=x"; c.meta.push_back('\0'); }
            c.opts.push_back(SY[i]); c.optval.push_back(val);
            c.meta += fmt(":map %d", val); c.meta.push_back('\0'); c.meta += std::string("=") + SY[i]; c.meta.push_back('\0');
        }
        if(split) c.split_map = true;
        if(r.chance(0.5)) { c.has_min = true; c.mn = 0; c.smin = "0"; c.has_max = true; c.mx = c.optval.back(); c.smax = std::to_string(c.optval.back()); }
    } else if(numeric) {
        int shape = (int)r.below(6);   // both, both negative, min only, max only, none, degenerate
        double lo, hi;
        if(k == K_F || k == K_AF || k == K_FD) {
            static const double LO[] = {0, -1, -8.5, 0.25, -100, 1e-3}, HI[] = {1, 1, 8.5, 15.2, -0.5, 20000};
            int i = (int)r.below(6); lo = LO[i]; hi = HI[i];
        } else if(k == K_UC) { static const int LO[] = {0, 0, 10, 64, 1}, HI[] = {127, 255, 20, 200, 1}; int i = (int)r.below(5); lo = LO[i]; hi = HI[i]; }
        else if(k == K_SC || k == K_AI) { static const int LO[] = {0, -64, -128, -10, 5}, HI[] = {127, 63, 127, -3, 5}; int i = (int)r.below(5); lo = LO[i]; hi = HI[i]; }
        else { static const int LO[] = {0, -64, INT_MIN, -1000, 0, 7}, HI[] = {127, 63, INT_MAX, 1000, 16383, 7}; int i = (int)r.below(6); lo = LO[i]; hi = HI[i]; }
        auto num = [&](double v) { return (k == K_F || k == K_AF || k == K_FD) ? fmt("%.10g", v) : fmt("%lld", (long long)v); };
        if(shape != 3 && shape != 4) { c.has_min = true; c.mn = lo; c.smin = num(lo); }
        if(shape != 2 && shape != 4) { c.has_max = true; c.mx = hi; c.smax = num(hi); }
    }
    // rSpecial(x) in front of the range: a property followed by free text (neither ':' nor '=')
    if(r.chance(0.2)) { c.meta += ":special"; c.meta.push_back('\0'); c.meta += r.chance(0.5) ? "disabled" : "random"; c.meta.push_back('\0'); count("meta.special_before_range"); }
    if(c.has_min) { c.meta += ":min"; c.meta.push_back('\0'); c.meta += "=" + c.smin; c.meta.push_back('\0'); }
    if(c.has_max) { c.meta += ":max"; c.meta.push_back('\0'); c.meta += "=" + c.smax; c.meta.push_back('\0'); }
    c.meta += ":documentation"; c.meta.push_back('\0'); c.meta += "=doc"; c.meta.push_back('\0');
    if(is_array(k)) { c.N = (int)r.range(1, 8); c.full = c.name + "#" + std::to_string(c.N) + KSPEC[k]; }
    else c.full = c.name + KSPEC[k];
    static cb_t *CBS[] = {&CB_sc, &CB_uc, &CB_iv, &CB_fv, &CB_tv, &CB_ov, &CB_sv, &CB_dv, &CB_af, &CB_ai, &CB_at, &CB_ao};
    c.cb = *CBS[k];
    return c;
}

// incoming message for the port: returns OSC bytes and a description
struct Incoming { std::string bytes, desc; bool query = false; char type = 0; int32_t i = 0; float f = 0; bool t = false; std::string s; int idx = 0; };
static Incoming gen_incoming(Rng &r, const Config &c, const std::string &prefix)
{
    Incoming in;
    int k = c.kind;
    std::string addr = prefix + c.name;
    if(is_array(k)) { in.idx = (int)r.below(c.N); addr += std::to_string(in.idx); }
    char buf[256];
    in.query = r.chance(0.25);
    if(in.query) { rtosc_message(buf, sizeof buf, addr.c_str(), ""); in.bytes.assign(buf, rtosc_message_length(buf, sizeof buf)); in.desc = addr + " (query)"; return in; }
    auto around = [&](double lo, double hi, double tmin, double tmax) -> double {
        switch(r.below(9)) {
            case 0: return lo; case 1: return hi; case 2: return lo - 1; case 3: return hi + 1; case 4: return tmin; case 5: return tmax;
            case 6: return (lo + hi) / 2; default: return lo + (hi - lo) * r.unit();
        }
    };
    double lo = c.has_min ? c.mn : -50, hi = c.has_max ? c.mx : 50;
    if(!c.has_min && c.has_max) lo = hi - 100;
    if(c.has_min && !c.has_max) hi = lo + 100;
    switch(k) {
        case K_SC: case K_AI: in.type = k == K_SC ? 'c' : 'i'; in.i = (int32_t)std::max(-128.0, std::min(127.0, floor(around(lo, hi, -128, 127)))); break;
        case K_UC: in.type = 'c'; in.i = (int32_t)std::max(0.0, std::min(255.0, floor(around(lo, hi, 0, 255)))); break;
        case K_I: { double v = around(lo, hi, INT_MIN, INT_MAX); in.type = 'i'; in.i = v >= 2147483647.0 ? INT_MAX : v <= -2147483648.0 ? INT_MIN : (int32_t)floor(v); break; }
        case K_F: case K_AF: case K_FD: {
            in.type = 'f'; double v = around(lo, hi, -3.0e38, 3.0e38); if(r.chance(0.3)) v += 0.37; in.f = (float)v;
            // the smallest possible changes: a neighbouring float of the stored value (a change!), or the stored value again (none)
            float cur = k == K_F ? g_z.fv : k == K_FD ? (float)g_z.dv : g_z.af[in.idx];
            if(r.chance(0.15)) { in.f = nextafterf(cur, r.chance(0.5) ? INFINITY : -INFINITY); count("msgs.float_one_ulp_step"); }
            else if(r.chance(0.05)) in.f = cur;
            break; }
        case K_T: case K_AT: in.type = r.chance(0.5) ? 'T' : 'F'; in.t = in.type == 'T'; break;
        case K_O: case K_AO:
            if(r.chance(0.4)) { in.type = 'S'; in.s = c.opts[r.below(c.opts.size())]; }
            else { in.type = r.chance(0.7) ? 'i' : 'c'; in.i = (int32_t)floor(around(0, (double)c.opts.size() - 1, -3, (double)c.opts.size() + 3)); }
            break;
        case K_S: { in.type = 's'; int len = (int)r.range(0, 20); for(int j = 0; j < len; ++j) in.s += (char)r.range(0x20, 0x7e); break; }
    }
    switch(in.type) {
        case 'i': case 'c': rtosc_message(buf, sizeof buf, addr.c_str(), in.type == 'i' ? "i" : "c", in.i); in.desc = addr + fmt(" %c:%d", in.type, in.i); break;
        case 'f': rtosc_message(buf, sizeof buf, addr.c_str(), "f", in.f); in.desc = addr + fmt(" f:%.9g", in.f); break;
        case 'T': case 'F': rtosc_message(buf, sizeof buf, addr.c_str(), in.type == 'T' ? "T" : "F"); in.desc = addr + " " + in.type; break;
        case 's': case 'S': rtosc_message(buf, sizeof buf, addr.c_str(), in.type == 's' ? "s" : "S", in.s.c_str()); in.desc = addr + " " + in.type + ":\"" + in.s + "\""; break;
    }
    in.bytes.assign(buf, rtosc_message_length(buf, sizeof buf));
    return in;
}

static std::string show_msg(const std::string &b)
{
    const char *m = b.c_str();
    std::string s = std::string(m) + " ," + rtosc_argument_string(m);
    unsigned n = rtosc_narguments(m);
    for(unsigned i = 0; i < n; ++i) {
        char t = rtosc_type(m, i);
        rtosc_arg_t a = rtosc_argument(m, i);
        if(t == 'i' || t == 'c') s += fmt(" %d", a.i); else if(t == 'f') s += fmt(" %.9g", a.f); else if(t == 's' || t == 'S') s += std::string(" \"") + a.s + "\"";
    }
    return s;
}

static void run_config(Rng &r)
{
    Config c = gen_config(r);
    int nest = (int)r.below(3);        // 0: at the root, 1: below "sub/", 2: below an enumerated "voice#4/" (a digit in front of the port's own name)
    bool nested = nest != 0;
    int voice = (int)r.below(4);
    std::deque<std::string> keep;
    g_leaf.set({rtosc::Port{c.full.c_str(), c.meta.c_str(), 0, c.cb}});
    static DynPorts *leafp = &g_leaf;
    g_root.set({rtosc::Port{nest == 2 ? "voice#4/" : "sub/", 0, &g_leaf, [](const char *m, rtosc::RtData &d) { while(*m && *m != '/') ++m; if(*m) ++m; leafp->dispatch(m, d); }}});
    // a sibling sub-tree with long scalar names (perfect-hashed table): messages to it leave long addresses in a reused location buffer
    static DynPorts g_other;
    static bool other_built = false;
    if(!other_built) { g_other.set({rtosc::Port{"cutoff_frequency_and_resonance::f", 0, 0, [](const char *, rtosc::RtData &) {}}, rtosc::Port{"q::f", 0, 0, [](const char *, rtosc::RtData &) {}}}); other_built = true; }
    static DynPorts *otherp = &g_other;
    {
        std::vector<rtosc::Port> rp;
        rp.push_back(rtosc::Port{nest == 2 ? "voice#4/" : "sub/", 0, &g_leaf, [](const char *m, rtosc::RtData &d) { while(*m && *m != '/') ++m; if(*m) ++m; leafp->dispatch(m, d); }});
        rp.push_back(rtosc::Port{"filter/", 0, &g_other, [](const char *m, rtosc::RtData &d) { while(*m && *m != '/') ++m; if(*m) ++m; otherp->dispatch(m, d); }});
        g_root.set(rp);
    }
    rtosc::Ports &top = nested ? (rtosc::Ports &)g_root : (rtosc::Ports &)g_leaf;
    static char loc[256];                 // one location buffer for the whole run, as an application keeps it
    bool reuse_loc = r.chance(0.6);
    std::string prefix = nest == 2 ? fmt("/voice%d/", voice) : nested ? "/sub/" : "/";
    std::string cdesc = render_cfg(c) + (nest == 2 ? " under voice#4/ as " + prefix : nested ? " under sub/" : "");
    if(nest == 2) count("nesting.below_enumerated_subtree");
    count(std::string("kind.") + KNAME[c.kind]);
    if(c.split_map) count("options.split_mapping_block");
    distinct(hash_str(cdesc + c.meta));
    sample(jstr(cdesc));
    // random initial state
    for(size_t i = 0; i < sizeof g_z; ++i) ((unsigned char *)&g_z)[i] = 0;
    g_z.guard = 0x5a5a5a5a;
    int nmsg = (int)r.range(20, 100);
    std::string hist;
    for(int n = 0; n < nmsg; ++n) {
        Incoming in = gen_incoming(r, c, prefix);
        std::string desc = cdesc + " :: " + hist + " >> " + in.desc;
        if(desc.size() > 1500) desc = cdesc + " :: ... >> " + in.desc;
        if(g_args.verbose) fprintf(stderr, "MSG %s\n", in.desc.c_str());
        Zoo before, expect;
        memcpy(&before, &g_z, sizeof g_z); memcpy(&expect, &g_z, sizeof g_z);
        Cap d;
        if(!reuse_loc) memset(loc, 0, sizeof loc);
        d.loc = loc; d.loc_size = sizeof loc; d.obj = &g_z;
        if(nested && reuse_loc && r.chance(0.3)) {
            // unrelated traffic through the same RtData first
            char ob[128];
            rtosc_message(ob, sizeof ob, r.chance(0.7) ? "/filter/cutoff_frequency_and_resonance" : "/filter/q", "f", 0.5f);
            Cap d0; d0.loc = loc; d0.loc_size = sizeof loc; d0.obj = &g_z;
            top.dispatch(ob, d0, true);
            count("msgs.preceded_by_other_traffic_in_same_loc");
        }
        top.dispatch(in.bytes.c_str(), d, true);
        count(in.query ? "msgs.query" : "msgs.set");
        std::string full = prefix + c.name + (is_array(c.kind) ? std::to_string(in.idx) : "");
        int idx = in.idx;
        // ---- reference: new stored value, expected messages
        std::string exp_type; double exp_num = 0; std::string exp_str; bool exp_changed = false; double old_num = 0;
        bool undo_kind = c.kind != K_T && c.kind != K_AT && c.kind != K_S;
        auto clampd = [&](double v, double tmin, double tmax) { (void)tmin; (void)tmax; if(c.has_min && v < c.mn) v = c.mn; if(c.has_max && v > c.mx) v = c.mx; return v; };
        switch(c.kind) {
            case K_SC: { old_num = before.sc; double v = in.query ? old_num : clampd((signed char)in.i, -128, 127); expect.sc = (char)v; exp_type = "c"; exp_num = v; break; }
            case K_UC: { old_num = before.uc; double v = in.query ? old_num : clampd((unsigned char)in.i, 0, 255); expect.uc = (unsigned char)v; exp_type = "c"; exp_num = v; break; }
            case K_I: { old_num = before.iv; double v = in.query ? old_num : clampd(in.i, INT_MIN, INT_MAX); expect.iv = (int)v; exp_type = "i"; exp_num = v; break; }
            case K_F: { old_num = before.fv; float v = in.query ? before.fv : in.f; if(!in.query) { if(c.has_min && v < (float)c.mn) v = (float)c.mn; if(c.has_max && v > (float)c.mx) v = (float)c.mx; } expect.fv = v; exp_type = "f"; exp_num = v; break; }
            case K_FD: { old_num = before.dv; double v = in.query ? before.dv : (double)in.f;
                         // the member is a double: the bounds apply as the metadata spells them, not rounded to single precision
                         if(!in.query) { if(c.has_min && v < atof(c.smin.c_str())) v = atof(c.smin.c_str()); if(c.has_max && v > atof(c.smax.c_str())) v = atof(c.smax.c_str()); }
                         expect.dv = v; exp_type = "f"; exp_num = v; break; }
            case K_AF: { old_num = before.af[idx]; float v = in.query ? before.af[idx] : in.f; if(!in.query) { if(c.has_min && v < (float)c.mn) v = (float)c.mn; if(c.has_max && v > (float)c.mx) v = (float)c.mx; } expect.af[idx] = v; exp_type = "f"; exp_num = v; break; }
            case K_AI: { old_num = before.ai[idx]; double v = in.query ? old_num : clampd((signed char)in.i, -128, 127); expect.ai[idx] = (int)v; exp_type = "i"; exp_num = v; break; }
            case K_T: { old_num = before.tv; bool v = in.query ? before.tv : in.t; expect.tv = v; exp_type = v ? "T" : "F"; exp_num = v; break; }
            case K_AT: { old_num = before.at[idx]; bool v = in.query ? before.at[idx] : in.t; expect.at[idx] = v; exp_type = v ? "T" : "F"; exp_num = v; break; }
            case K_O: case K_AO: {
                int &fld = c.kind == K_O ? expect.ov : expect.ao[idx];
                old_num = c.kind == K_O ? before.ov : before.ao[idx];
                double v = old_num;
                if(!in.query) { if(in.type == 'S') { for(size_t q = 0; q < c.opts.size(); ++q) if(c.opts[q] == in.s) v = (double)c.optval[q]; } else v = clampd(in.i, INT_MIN, INT_MAX); }
                fld = (int)v; exp_num = v;
                exp_type = in.query || in.type == 'S' ? "i" : std::string(1, in.type);
                break;
            }
            case K_S: { std::string v = in.query ? std::string(before.sv) : in.s.substr(0, 11); if(!in.query) { memset(expect.sv, 0, sizeof expect.sv); strcpy(expect.sv, v.c_str()); /* strncpy semantics: bytes behind the terminator are zero-filled */ } exp_type = "s"; exp_str = v; break; }
        }
        exp_changed = !in.query && exp_num != old_num;
        // ---- state
        if(c.kind == K_S && !in.query) {
            // only the string content up to the terminator is specified
            if(strcmp(g_z.sv, expect.sv)) fail("stored_value", {}, desc, std::string("\"") + g_z.sv + "\"", std::string("\"") + expect.sv + "\"");
            memcpy(expect.sv, g_z.sv, sizeof expect.sv);
        }
        if(memcmp(&g_z, &expect, sizeof g_z)) {
            // which part differs?
            Zoo a, b;
            memcpy(&a, &g_z, sizeof a); memcpy(&b, &expect, sizeof b);
            bool target_wrong = false;
            switch(c.kind) { case K_SC: target_wrong = a.sc != b.sc; break; case K_UC: target_wrong = a.uc != b.uc; break; case K_I: target_wrong = a.iv != b.iv; break; case K_F: target_wrong = memcmp(&a.fv, &b.fv, 4); break; case K_FD: target_wrong = memcmp(&a.dv, &b.dv, 8); break;
                             case K_T: target_wrong = a.tv != b.tv; break; case K_O: target_wrong = a.ov != b.ov; break; case K_AF: target_wrong = memcmp(&a.af[idx], &b.af[idx], 4); break; case K_AI: target_wrong = a.ai[idx] != b.ai[idx]; break;
                             case K_AT: target_wrong = a.at[idx] != b.at[idx]; break; case K_AO: target_wrong = a.ao[idx] != b.ao[idx]; break; default: break; }
            std::vector<std::string> tags;
            if(c.has_min != c.has_max) tags.push_back("one_sided_range");
            if(in.query) fail("query_changed_state", tags, desc, "runtime object modified", "unchanged");
            else if(target_wrong) fail("stored_value", tags, desc, fmt("stored value differs (sc=%d uc=%d iv=%d fv=%.9g dv=%.17g ov=%d ai=%d af=%.9g)", a.sc, a.uc, a.iv, a.fv, a.dv, a.ov, a.ai[idx], a.af[idx]), fmt("%.9g", exp_num));
            else fail("touched_other_state", tags, desc, "a field/element other than the addressed one changed", "only the addressed element");
            memcpy(&g_z, &expect, sizeof g_z);
        }
        // ---- messages
        std::vector<std::string> undo, bc, rep;
        for(auto &mm : d.got) {
            if(!strcmp(mm.bytes.c_str(), "/undo_change")) undo.push_back(mm.bytes);
            else (mm.bcast ? bc : rep).push_back(mm.bytes);
        }
        auto check_value_msg = [&](const std::string &b, const char *what) {
            const char *m = b.c_str();
            if(full != m) { fail(std::string(what) + "_address", {}, desc, m, full); return; }
            std::string ts = rtosc_argument_string(m);
            if(ts != exp_type) { fail(std::string(what) + "_type", {}, desc, ts, exp_type); return; }
            if(ts == "i" || ts == "c") { if(rtosc_argument(m, 0).i != (int32_t)exp_num) fail(std::string(what) + "_value", {}, desc, show_msg(b), fmt("%.0f", exp_num)); }
            else if(ts == "f") { float ef = (float)exp_num; if(rtosc_argument(m, 0).f != ef) fail(std::string(what) + "_value", {}, desc, show_msg(b), fmt("%.9g", exp_num)); }
            else if(ts == "s") { if(exp_str != rtosc_argument(m, 0).s) fail(std::string(what) + "_value", {}, desc, show_msg(b), exp_str); }
        };
        if(in.query) {
            if(rep.size() != 1 || !bc.empty() || !undo.empty()) fail("query_messages", {}, desc, fmt("%zu replies, %zu broadcasts, %zu undo events", rep.size(), bc.size(), undo.size()), "exactly one reply");
            else check_value_msg(rep[0], "reply");
        } else {
            bool toggle = c.kind == K_T || c.kind == K_AT;
            size_t want_bc = toggle ? (exp_changed ? 1 : 0) : 1;
            if(bc.size() != want_bc || !rep.empty()) fail("broadcast_count", {}, desc, fmt("%zu broadcasts, %zu replies", bc.size(), rep.size()), fmt("%zu broadcast(s)", want_bc));
            else if(want_bc) check_value_msg(bc[0], "broadcast");
            if(undo_kind) {
                count(exp_changed ? "undo.expected_event" : "undo.expected_none");
                if(undo.size() != (exp_changed ? 1u : 0u)) fail("undo_event_count", {}, desc, fmt("%zu", undo.size()), exp_changed ? "1 (value changed)" : "0 (value unchanged)");
                else if(exp_changed) {
                    const char *u = undo[0].c_str();
                    std::string ts = rtosc_argument_string(u);
                    bool ok = ts.size() == 3 && ts[0] == 's' && full == rtosc_argument(u, 0).s;
                    double o = 0, nw = 0;
                    if(ok) { if(ts[1] == 'f') { o = rtosc_argument(u, 1).f; nw = rtosc_argument(u, 2).f; } else { o = rtosc_argument(u, 1).i; nw = rtosc_argument(u, 2).i; } }
                    bool is_f = c.kind == K_F || c.kind == K_AF || c.kind == K_FD;
                    if(!ok || (ts[1] == 'f') != is_f || o != (is_f ? (double)(float)old_num : old_num) || nw != (is_f ? (double)(float)exp_num : exp_num))
                        fail("undo_event_content", {is_f ? "float_port" : "int_port"}, desc, show_msg(undo[0]), fmt("/undo_change %s old=%.9g new=%.9g", full.c_str(), old_num, exp_num));
                }
            } else if(!undo.empty()) fail("undo_event_count", {}, desc, fmt("%zu", undo.size()), "0 (toggle/string ports emit none)");
        }
        if(g_z.guard != 0x5a5a5a5a) fail("touched_other_state", {}, desc, "guard word changed", "untouched");
        hist += in.desc.substr(prefix.size()) + "; ";
        if(hist.size() > 400) hist.erase(0, 200);
    }
    g_evaluations += nmsg - 1;
}

int main(int argc, char **argv)
{
    return main_loop(argc, argv, 0xC14, [](uint64_t, Rng &r) { run_config(r); });
}
