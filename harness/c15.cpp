// C15 — undo history rewinds and replays recorded changes exactly.
// Oracle: reference state machine stepped with every operation; virtual clock
// (the harness defines time()).  Mode "e2e": events come from the library's
// parameter ports and the undo messages are dispatched back into them.
#include <climits>
#include <cmath>
#include "vh.h"
#include "refosc.h"
#include <rtosc/rtosc.h>
#include <rtosc/undo-history.h>
#include <rtosc/ports.h>
#include <rtosc/port-sugar.h>
using namespace vh;

static time_t g_now = 1000;
extern "C" time_t time(time_t *t) { if(t) *t = g_now; return g_now; }

struct Ev { time_t t; std::string addr; char type; uint32_t oldv, newv; };

static std::string enc(const std::string &addr, char type, uint32_t v)
{
    ref::Val x; x.type = type; x.u32 = v;
    ref::bytes b = ref::encode(addr, std::string(1, type), {x});
    return std::string((const char *)b.data(), b.size());
}

struct RefUndo {
    std::vector<Ev> h;
    long pos = 0;
    void record(const Ev &e)
    {
        h.resize(pos);
        for(long i = pos - 1; i >= 0; --i) {
            if(difftime(e.t, h[i].t) > 2) continue;       // outside the two-second window
            if(h[i].addr == e.addr) { h[i].newv = e.newv; h[i].t = e.t; h[i].type = e.type; count("model.merged"); if(i != pos - 1) count("model.merged_into_non_newest"); return; }
        }
        h.push_back(e);
        ++pos;
        if(h.size() > 20) { h.erase(h.begin()); --pos; count("model.cap_dropped"); }
    }
    void seek(int d, std::vector<std::string> &out)
    {
        long dest = pos + (long)d;
        if(dest < 0) dest = 0;
        if(dest > (long)h.size()) dest = (long)h.size();
        while(pos > dest) { --pos; out.push_back(enc(h[pos].addr, h[pos].type, h[pos].oldv)); }
        while(pos < dest) { out.push_back(enc(h[pos].addr, h[pos].type, h[pos].newv)); ++pos; }
    }
};

static std::string show(const std::string &m)
{
    if(m.empty()) return "<none>";
    rtosc_arg_t a = rtosc_argument(m.data(), 0);
    char t = rtosc_type(m.data(), 0);
    return std::string(m.c_str()) + fmt(" %c:%08x", t, (uint32_t)a.i);
}

static void run_model_case(Rng &r)
{
    rtosc::UndoHistory uh;
    std::vector<std::string> got;
    uh.setCallback([&](const char *m) { got.push_back(std::string(m, rtosc_message_length(m, 256))); });
    RefUndo ref;
    g_now = 1000 + (time_t)r.below(1000);
    int naddr = (int)r.range(2, 5);
    std::vector<std::string> addrs;
    std::vector<char> types;
    // distinct addresses; some are proper prefixes of others, lengths cover every residue mod 4
    static const char *POOL[] = {"/p0/x", "/p1/volume", "/p2/x", "/p3/volume", "/vol", "/vol1", "/vol10", "/vol100", "/a/b", "/a/bc", "/a/b/cde", "/a/b/cdef", "/x", "/part0/kit", "/part0/kit1"};
    std::vector<std::string> pool(POOL, POOL + 15);
    // addresses whose set-message still fits the 256-byte replay buffer (up to 247 characters)
    if(r.chance(0.15)) { for(int L : {223, 224, 236, 247}) { std::string a = "/long"; while((int)a.size() < L) a += "/component_" + std::to_string(a.size()); a.resize(L); if(a.back() == '/') a.back() = 'x'; pool.push_back(a); } count("addresses.long_pool"); }
    for(int i = 0; i < naddr; ++i) { size_t k = r.below(pool.size()); addrs.push_back(pool[k]); pool.erase(pool.begin() + (long)k); types.push_back("ifc"[r.below(3)]); }
    for(auto &x : addrs) for(auto &y : addrs) if(x != y && y.compare(0, x.size(), x) == 0) { count("addresses.one_prefix_of_another"); break; }
    std::map<std::string, uint32_t> cur;
    int ops = (int)r.range(0, 60);
    std::string hist;
    int style = (int)r.below(3);   // 0 mixed, 1 record-heavy (crosses the 20 cap), 2 seek-heavy
    for(int o = 0; o < ops; ++o) {
        int k = (int)r.below(10);
        int rec_thr = style == 1 ? 7 : style == 2 ? 3 : 5;
        if(k < rec_thr) {
            int ai = (int)r.below(naddr);
            char t = types[ai];
            uint32_t oldv = cur.count(addrs[ai]) ? cur[addrs[ai]] : 0, newv;
            if(t == 'f') { float f = (float)r.range(-100, 100) / 4; memcpy(&newv, &f, 4); }
            else if(t == 'c') newv = (uint32_t)r.range(0, 127);
            else newv = (uint32_t)r.range(-1000, 1000);
            cur[addrs[ai]] = newv;
            char buf[512];
            rtosc_arg_t a[3];
            a[0].s = addrs[ai].c_str(); a[1].i = (int32_t)oldv; a[2].i = (int32_t)newv;
            char ty[4] = {'s', t, t, 0};
            rtosc_amessage(buf, sizeof buf, "/undo_change", ty, a);
            hist += fmt(" rec(%s,%c,%08x->%08x)@%ld", addrs[ai].c_str(), t, oldv, newv, (long)g_now);
            uh.recordEvent(buf);
            ref.record(Ev{g_now, addrs[ai], t, oldv, newv});
            count("ops.record");
        } else if(k < 8) {
            int d = r.chance(0.2) ? (int)r.range(-30, 30) : (int)r.range(-4, 4);
            // "everything": the extreme distances a caller uses for undo-all / redo-all
            if(r.chance(0.06)) { static const int X[] = {INT_MAX, INT_MIN, INT_MAX - 1, INT_MIN + 1, INT_MAX - 20, 1 << 30, -(1 << 30), 65536, -65536}; d = X[r.below(9)]; count("ops.seek_extreme_distance"); }
            hist += fmt(" seek(%d)", d);
            got.clear();
            std::vector<std::string> exp;
            uh.seekHistory(d);
            ref.seek(d, exp);
            count("ops.seek");
            if(!exp.empty()) count(d < 0 ? "ops.seek_undo_effective" : "ops.seek_redo_effective");
            if(got != exp) {
                std::string g, e;
                for(auto &m : got) g += show(m) + "; ";
                for(auto &m : exp) e += show(m) + "; ";
                fail("seek_messages", {}, hist, g.empty() ? "(nothing)" : g, e.empty() ? "(nothing)" : e);
                return;
            }
            // the undone/redone values become the current ones
            for(auto &m : exp) cur[m.c_str()] = (uint32_t)rtosc_argument(m.data(), 0).i;
        } else {
            int adv = (int)r.below(4);
            g_now += adv;
            hist += fmt(" +%ds", adv);
            count("ops.clock");
        }
        if(uh.getPos() != (unsigned)ref.pos || uh.size() != ref.h.size()) {
            fail("position_or_size", {}, hist, fmt("pos=%u size=%zu", uh.getPos(), uh.size()), fmt("pos=%ld size=%zu", ref.pos, ref.h.size()));
            return;
        }
        if(ref.h.size() == 20) count("state.at_cap");
    }
    // undo everything retained, then redo everything
    got.clear();
    std::vector<std::string> exp;
    uh.seekHistory(-100); ref.seek(-100, exp);
    uh.seekHistory(+100); ref.seek(+100, exp);
    if(got != exp) fail("full_undo_redo", {}, hist, fmt("%zu messages", got.size()), fmt("%zu messages", exp.size()));
    describe_case(hist);
    distinct(hash_str(hist));
    sample(jstr(hist.substr(0, 300)));
}

// ---------------------------------------------------------------- end to end through the parameter ports
struct Synth { int vol; unsigned char pan; int mode; int arr[4]; float cut; };
#define rObject Synth
static const rtosc::Ports synth_ports = {
    rParamI(vol, rLinear(-100, 100), "volume"),
    rParam(pan, "pan"),
    rOption(mode, rOptions(a, b, c, d), "mode"),
    rArrayI(arr, 4, rLinear(0, 100), "array"),
    rParamF(cut, rLinear(-8, 8), "cutoff"),
};
#undef rObject

// states are compared field by field as the ports see them: +0.0 and -0.0 are the same cutoff (a set from one to the
// other is no change for the port, so no undo event exists that could bring the sign back)
static bool same_synth(Synth a, Synth b)
{
    if(a.cut == 0) a.cut = 0.f;
    if(b.cut == 0) b.cut = 0.f;
    return !memcmp(&a, &b, sizeof a);
}

struct E2EData : rtosc::RtData {
    rtosc::UndoHistory *uh;
    int undo_events = 0;
    void reply(const char *path, const char *args, ...) override
    {
        if(!strcmp(path, "/undo_change")) {
            va_list va; va_start(va, args);
            char buf[256];
            rtosc_vmessage(buf, sizeof buf, path, args, va);
            va_end(va);
            uh->recordEvent(buf);
            ++undo_events;
        }
    }
    void reply(const char *) override {}
    void broadcast(const char *, const char *, ...) override {}
    void broadcast(const char *) override {}
};

static void run_e2e_case(Rng &r)
{
    Synth s;
    memset(&s, 0, sizeof s);
    rtosc::UndoHistory uh;
    char loc[128];
    E2EData d;
    d.uh = &uh;
    d.obj = &s;
    d.loc = loc; d.loc_size = sizeof loc;
    // undo messages are dispatched back into the ports; the changes they cause must not be re-recorded
    bool replaying = false;
    E2EData dr;             // separate RtData that drops undo events
    rtosc::UndoHistory sink; sink.setCallback([](const char *) {});
    dr.uh = &sink; dr.obj = &s;
    char loc2[128]; dr.loc = loc2; dr.loc_size = sizeof loc2;
    uh.setCallback([&](const char *m) { replaying = true; synth_ports.dispatch(m, dr, true); replaying = false; });
    (void)replaying;
    g_now = 5000;
    std::vector<Synth> snaps;          // state after each recorded (unmerged) change is hard to align with merges:
    // instead: snapshot before the first change and after the last, and require undo-all / redo-all to reach them
    // as long as nothing fell off the 20-entry history.
    Synth initial = s;
    int ops = (int)r.range(1, 40);
    std::string hist;
    bool overflowed = false;
    for(int o = 0; o < ops; ++o) {
        char buf[128];
        int k = (int)r.below(6);
        switch(k) {
            case 0: rtosc_message(buf, sizeof buf, "/vol", "i", (int)r.range(-150, 150)); break;
            case 1: rtosc_message(buf, sizeof buf, "/pan", "c", (int)r.range(0, 127)); break;
            case 2: if(r.chance(0.5)) rtosc_message(buf, sizeof buf, "/mode", "i", (int)r.range(0, 3));
                    else { static const char *SYM[] = {"a", "b", "c", "d"}; rtosc_message(buf, sizeof buf, "/mode", r.chance(0.5) ? "S" : "s", SYM[r.below(4)]); count("e2e.option_set_by_symbol"); }   // the same port through its symbolic entry
                    break;
            case 3: rtosc_message(buf, sizeof buf, fmt("/arr%d", (int)r.below(4)).c_str(), "i", (int)r.range(0, 100)); break;
            case 4: { float v = (float)r.range(-40, 40) / 4;
                      if(r.chance(0.25)) { v = nextafterf(s.cut, r.chance(0.5) ? INFINITY : -INFINITY); count("e2e.float_one_ulp_step"); }   // the smallest change there is
                      rtosc_message(buf, sizeof buf, "/cut", "f", v); break; }
            default: g_now += (time_t)r.below(4); hist += " +t"; continue;
        }
        hist += std::string(" ") + buf + fmt("=%d", rtosc_type(buf, 0) == 'f' ? (int)(rtosc_argument(buf, 0).f * 4) : rtosc_argument(buf, 0).i);
        size_t before = uh.size();
        synth_ports.dispatch(buf, d, true);
        count("e2e.sets");
        if(uh.size() == 20 && before == 20 && d.undo_events) overflowed = true;
        d.undo_events = 0;
    }
    Synth final_state = s;
    describe_case(hist);
    distinct(hash_str(hist));
    sample(jstr("e2e:" + hist.substr(0, 250)), 4);
    if(uh.size() >= 20) overflowed = true;
    uh.seekHistory(-100);
    count("e2e.undo_all");
    if(!overflowed) {
        if(!same_synth(s, initial)) fail("e2e_undo_all", {}, hist, fmt("vol=%d pan=%d mode=%d arr=%d,%d,%d,%d cut=%g", s.vol, s.pan, s.mode, s.arr[0], s.arr[1], s.arr[2], s.arr[3], s.cut), "initial state (all zero)");
        else count("e2e.undo_all_checked");
    }
    uh.seekHistory(+100);
    if(!same_synth(s, final_state)) fail("e2e_redo_all", {}, hist, fmt("vol=%d pan=%d mode=%d arr=%d,%d,%d,%d cut=%g", s.vol, s.pan, s.mode, s.arr[0], s.arr[1], s.arr[2], s.arr[3], s.cut),
                                                  fmt("vol=%d pan=%d mode=%d arr=%d,%d,%d,%d cut=%g", final_state.vol, final_state.pan, final_state.mode, final_state.arr[0], final_state.arr[1], final_state.arr[2], final_state.arr[3], final_state.cut));
    else count("e2e.redo_all_checked");
}

int main(int argc, char **argv)
{
    parse_args(argc, argv);
    bool e2e = g_args.mode == "e2e";
    return main_loop(argc, argv, 0xC15, [e2e](uint64_t, Rng &r) { if(e2e) run_e2e_case(r); else run_model_case(r); });
}
