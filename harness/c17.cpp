// C17 — port metadata is read back exactly as written.
// Oracle: the block is generated from a list of (key, optional value) entries.
#include "vh.h"
#include <rtosc/ports.h>
#include <rtosc/port-sugar.h>
using namespace vh;

struct Entry { std::string key; bool has_value; std::string value; };

static std::string render(const std::vector<Entry> &e)
{
    std::string s;
    for(auto &x : e) s += "[" + vis(x.key) + (x.has_value ? "=" + vis(x.value) : "") + "]";
    return s;
}

static void check_block(const std::vector<Entry> &entries, const char *block, size_t nbytes, const std::string &how,
                        const std::vector<std::string> &tags)
{
    std::string desc = how + " " + render(entries);
    // exact-size heap copy: an over-read of the terminator is an ASan report
    char *h = (char *)malloc(nbytes ? nbytes : 1);
    memcpy(h, block, nbytes);
    rtosc::Port port{"p", nbytes ? h : NULL, 0, [](const char *, rtosc::RtData &) {}};
    auto meta = port.meta();
    count("blocks");
    // iteration
    size_t i = 0;
    bool ok = true;
    for(auto m : meta) {
        if(i >= entries.size()) { fail("iteration_extra_entry", tags, desc, fmt("entry %zu: ", i) + vis(m.title ? m.title : "<null>"), fmt("%zu entries", entries.size())); ok = false; break; }
        const Entry &e = entries[i];
        if(!m.title || e.key != m.title) { fail("iteration_key", tags, desc, fmt("entry %zu: ", i) + vis(m.title ? m.title : "<null>"), vis(e.key)); ok = false; break; }
        if(e.has_value) {
            if(!m.value || e.value != m.value) { fail("iteration_value", tags, desc, fmt("entry %zu: ", i) + (m.value ? vis(m.value) : "<no value>"), vis(e.value)); ok = false; break; }
        } else if(m.value) { fail("iteration_value", tags, desc, fmt("entry %zu: ", i) + vis(m.value), "<no value>"); ok = false; break; }
        ++i;
        count("entries_iterated");
    }
    if(ok && i != entries.size()) fail("iteration_missing_entry", tags, desc, fmt("%zu entries", i), fmt("%zu entries", entries.size()));
    // lookup by key: first entry with that key
    std::vector<std::string> keys;
    for(auto &e : entries) keys.push_back(e.key);
    keys.push_back("zz"); keys.push_back("a"); keys.push_back("");
    for(auto &k : keys) {
        if(k.empty() && !entries.empty()) continue;   // the empty key doubles as end marker
        const Entry *first = 0;
        for(auto &e : entries) if(e.key == k) { first = &e; break; }
        const char *v = meta[k.c_str()];
        count("lookups");
        if(first && first->has_value) { if(!v || first->value != v) fail("lookup_value", tags, desc, "[" + vis(k) + "] -> " + (v ? vis(v) : "<null>"), vis(first->value)); }
        else if(v) fail("lookup_value", tags, desc, "[" + vis(k) + "] -> " + vis(v), first ? "<null> (first entry with the key has no value)" : "<null> (key absent)");
        auto f = meta.find(k.c_str());
        bool present = (bool)f && f != meta.end();
        if(present != (first != 0)) fail("find_presence", tags, desc, "find(" + vis(k) + ") " + (present ? "present" : "absent"), first ? "present" : "absent");
        if(present && first && k != f.title) fail("find_presence", tags, desc, std::string("find returned ") + vis(f.title), vis(k));
    }
    // the same lookups through one key buffer that is overwritten for every key (as map_arg_vals does with "map %d"),
    // on the same container object, in reverse order: the answer depends on the key's text only
    {
        char kb[64];
        for(size_t q = keys.size(); q-- > 0;) {
            const std::string &k = keys[q];
            if((k.empty() && !entries.empty()) || k.size() >= sizeof kb) continue;
            strcpy(kb, k.c_str());
            const Entry *first = 0;
            for(auto &e : entries) if(e.key == k) { first = &e; break; }
            const char *v = meta[kb];
            count("lookups_reused_key_buffer");
            if(first && first->has_value) { if(!v || first->value != v) { fail("lookup_value", tags, desc + " [key buffer reused]", "[" + vis(k) + "] -> " + (v ? vis(v) : "<null>"), vis(first->value)); break; } }
            else if(v) { fail("lookup_value", tags, desc + " [key buffer reused]", "[" + vis(k) + "] -> " + vis(v), first ? "<null> (first entry with the key has no value)" : "<null> (key absent)"); break; }
            auto f = meta.find(kb);
            bool present = (bool)f && f != meta.end();
            if(present != (first != 0)) { fail("find_presence", tags, desc + " [key buffer reused]", "find(" + vis(k) + ") " + (present ? "present" : "absent"), first ? "present" : "absent"); break; }
        }
    }
    size_t len = meta.length();
    if(len != nbytes) fail("length", tags, desc, std::to_string(len), std::to_string(nbytes));
    free(h);
}

static void run_generated(Rng &r)
{
    static const char AL[] = "ab:= 01";
    int n = (int)r.range(1, 8);
    std::vector<Entry> e;
    for(int i = 0; i < n; ++i) {
        Entry x;
        if(i > 0 && r.chance(0.25)) x.key = e[r.below(e.size())].key;    // repeated key
        else {
            int kl = (int)r.range(1, 4);
            for(int k = 0; k < kl; ++k) { char c = AL[r.below(7)]; if(k == 0 && c == ':') c = 'a'; x.key += c; }
        }
        x.has_value = r.chance(0.6);
        if(x.has_value) { int vl = r.chance(0.25) ? 0 : (int)r.range(1, 5); for(int k = 0; k < vl; ++k) x.value += AL[r.below(7)]; }
        // documentation-sized values and long keys: the same alphabet, other orders of magnitude
        if(x.has_value && r.chance(0.02)) { int vl = (int)r.range(200, 3000); x.value.clear(); for(int k = 0; k < vl; ++k) x.value += AL[r.below(7)]; count("blocks.long_value"); }
        if(r.chance(0.06)) { static const char *RW[] = {"documentation", "default", "min", "max", "map 0", "parameter", "scale", "unit"}; x.key = RW[r.below(8)]; if(x.key == "documentation") { x.has_value = r.chance(0.8); if(x.has_value && x.value.empty()) x.value = "text"; count("blocks.documentation_key"); } }
        if(r.chance(0.01)) { int kl = (int)r.range(250, 700); x.key = "a"; for(int k = 1; k < kl; ++k) x.key += AL[r.below(7)]; count("blocks.long_key"); }
        e.push_back(x);
    }
    std::string b;
    for(auto &x : e) { b += ":" + x.key; b.push_back('\0'); if(x.has_value) { b += "=" + x.value; b.push_back('\0'); } }
    b.push_back('\0');
    std::vector<std::string> tags;
    for(size_t i = 0; i + 1 < e.size(); ++i) if(e[i].has_value && e[i].value.empty()) { tags.push_back("empty_value_not_last"); break; }
    for(auto &x : e) if(x.has_value && !x.value.empty() && x.value[0] == ':') { tags.push_back("value_starts_with_colon"); break; }
    for(size_t i = 0; i < e.size(); ++i) for(size_t j = 0; j < i; ++j) if(e[i].key == e[j].key) { count("blocks.repeated_key"); i = e.size(); break; }
    for(auto &t : tags) count("blocks." + t);
    describe_case(render(e), tags);
    distinct(hash_str(b));
    sample(jstr(render(e).substr(0, 300)));
    check_block(e, b.data(), b.size(), "generated", tags);
}

// blocks produced by the library's own macros (compile-time literals)
#define E(k) Entry{k, false, ""}
#define EV(k, v) Entry{k, true, v}
static void run_macro(uint64_t i)
{
    struct MB { const char *bytes; size_t n; std::vector<Entry> e; };
#define BLK(lit, ...) MB{lit, sizeof(lit), {__VA_ARGS__}}
    static const MB B[] = {
        BLK(rProp(parameter), E("parameter")),
        BLK(rMap(min, 0) rMap(max, 127), EV("min", "0"), EV("max", "127")),
        BLK(rProp(parameter) rMap(min, -1) rDoc("a:b=c"), E("parameter"), EV("min", "-1"), EV("documentation", "a:b=c")),
        BLK(rOptions(sine, saw, sq) rDefault(saw), EV("map 0", "sine"), EV("map 1", "saw"), EV("map 2", "sq"), EV("default", "saw")),
        BLK(rLinear(0, 15.2) rDoc("x"), EV("min", "0"), EV("max", "15.2"), EV("scale", "linear"), EV("documentation", "x")),
        BLK(rProp(internal) rMap(class, T) rDoc("port metadata"), E("internal"), EV("class", "T"), EV("documentation", "port metadata")),
        BLK(rEnabledBy(on) rDefaultDepends(preset) rPreset(0, 4) rPreset(1, 9), EV("enabled by", "on"), EV("default depends", "preset"), EV("default 0", "4"), EV("default 1", "9")),
        BLK(rMap(empty, ) rProp(x) rDoc(""), EV("empty", ""), E("x"), EV("documentation", "")),
        BLK(rProp(enumerated) rProp(enumerated) rMap(enumerated, yes), E("enumerated"), E("enumerated"), EV("enumerated", "yes")),
        BLK(rShort("vol") rDepends(a, b), EV("shortname", "vol"), EV("depends", "a,b,")),
        BLK(rNoDefaults rCentered, E("no defaults"), E("centered")),
        BLK(rDefaultId(abc) rBlobType(f), EV("default", "\"abc\"S"), EV("blob type", "f")),
    };
    const MB &b = B[i % 12];
    describe_case("macro block " + std::to_string(i % 12));
    count("blocks.macro_built");
    check_block(b.e, b.bytes, b.n, "macro-built", {});
}

int main(int argc, char **argv)
{
    return main_loop(argc, argv, 0xC17, [](uint64_t i, Rng &r) {
        if(i % 50 < 12 && i / 50 == 0) run_macro(i);
        else if(i % 1000 == 999) {
            // empty / absent metadata
            // absent metadata (an empty string is outside the 1..8-entry quantifier and not checked)
            rtosc::Port p0{"p", NULL, 0, 0};
            for(auto *p : {&p0}) {
                int n = 0;
                for(auto m : p->meta()) { (void)m; ++n; }
                if(n) fail("iteration_extra_entry", {}, "empty metadata", std::to_string(n), "0");
                if(p->meta().length() != 0) fail("length", {}, "empty metadata", std::to_string(p->meta().length()), "0");
                if(p->meta()["a"]) fail("lookup_value", {}, "empty metadata", "value", "<null>");
            }
            count("blocks.empty");
        } else run_generated(r);
    });
}
