// Generator / expander / comparator for rtosc_arg_val_t lists (pretty-format
// round trips, C10 C11 and savefiles).
#pragma once
#include <math.h>
#include <limits.h>
#include <deque>
#include <rtosc/rtosc.h>
#include <rtosc/arg-ext.h>
#include <rtosc/arg-val-math.h>
#include "vh.h"

namespace av {
using vh::Rng;
typedef rtosc_arg_val_t av_t;

struct Store {           // keeps strings / blobs alive
    std::deque<std::string> s;
    const char *str(const std::string &x) { s.push_back(x); return s.back().c_str(); }
    uint8_t *blob(const std::string &x) { s.push_back(x); return (uint8_t *)s.back().data(); }
};

static inline av_t mk(char t) { av_t a; memset(&a, 0, sizeof a); a.type = t; return a; }

static inline std::string gen_text(Rng &r, int maxlen)
{
    int len = r.chance(0.8) ? (int)r.range(0, 12) : (int)r.range(0, maxlen);
    std::string s;
    static const char SPECIAL[] = "\"\\%\n\t' ./[]#-:x";
    for(int i = 0; i < len; ++i) s += r.chance(0.25) ? SPECIAL[r.below(sizeof SPECIAL - 1)] : (char)r.range(0x20, 0x7e);
    return s;
}
static inline std::string gen_ident(Rng &r)
{
    static const char *W[] = {"sine", "saw", "An_Identifier_12345", "_x", "frequency_modulation", "t", "f", "n", "i", "M", "B", "true_", "nile", "info", "nowhere", "immediately_", "MIDI_", "BLOBx", "x2", "falsex", "true1", "nil2", "now3", "false2", "immediately7_x", "inf0", "true", "false", "nil", "inf", "now", "immediately", "MIDI", "BLOB"};
    return W[r.below(r.chance(0.85) ? 26 : 34)];
}

// text that looks like pretty-format syntax: inside a string it is just text
static inline std::string tricky_text(Rng &r)
{
    static const char *T[] = {"... 7 ", "1 ... 5", "...", " ... ", "3x", "3x1", "[", "]", "[1 2", "1 2]", "% comment", "x ... y", "2 ... ", "'c'", "\"S", "true", "0x1p-3", "(0x1p-1)", "BLOB [1 0x00]", "MIDI [", "2016-11-16 19:44:06", "now", "... 7 ... 9 ... ", "1.0 ... 3.0", "5h ... 9h"};
    std::string t = T[r.below(25)];
    if(r.chance(0.3)) t += std::to_string((int)r.range(-3, 12));
    if(r.chance(0.2)) t = std::to_string((int)r.range(0, 9)) + " " + t;
    return t;
}

// one scalar value of type t, full range of the type (finite floats)
static inline av_t gen_scalar(Rng &r, char t, Store &st)
{
    av_t a = mk(t);
    switch(t) {
        case 'i': { static const int32_t X[] = {0, 1, -1, INT_MAX, INT_MIN, 42, -12, 123, 1000, -3}; a.val.i = r.chance(0.5) ? X[r.below(10)] : (int32_t)r.next(); break; }
        case 'h': { static const int64_t X[] = {0, 1, -1, LLONG_MAX, LLONG_MIN, 0xffffffffffll, -5000000000ll}; a.val.h = r.chance(0.5) ? X[r.below(7)] : (int64_t)r.next(); break; }
        case 'c': { static const int32_t E[] = {'\a', '\b', '\t', '\n', '\v', '\f', '\r', '\\', '\'', '"', ' ', '#', '%'}; a.val.i = r.chance(0.3) ? E[r.below(13)] : (int32_t)r.range(0x20, 0x7e); break; }
        case 'r': a.val.i = (int32_t)r.next(); break;
        case 'f': {
            static const float X[] = {0.f, -0.f, 1.f, -1.f, 0.5f, 0.1f, 1e10f, 1e-10f, 3.4028235e38f, 1.17549435e-38f, 1e-45f, 0.000061f, 123.456f, -2.5f, 16777216.f};
            if(r.chance(0.5)) a.val.f = X[r.below(15)];
            else { uint32_t u; do { u = (uint32_t)r.next(); } while((u & 0x7f800000u) == 0x7f800000u); memcpy(&a.val.f, &u, 4); }
            break; }
        case 'd': {
            static const double X[] = {0., -0., 1., -1., 0.1, 1e100, 1e-100, 1.7976931348623157e308, 2.2250738585072014e-308, 5e-324, 0.333, -7.25};
            if(r.chance(0.5)) a.val.d = X[r.below(12)];
            else { uint64_t u; do { u = r.next(); } while((u & 0x7ff0000000000000ull) == 0x7ff0000000000000ull); memcpy(&a.val.d, &u, 8); }
            break; }
        case 's': a.val.s = st.str(r.chance(0.08) ? tricky_text(r) : gen_text(r, 100)); break;
        case 'S': a.val.s = st.str(r.chance(0.6) ? gen_ident(r) : r.chance(0.1) ? tricky_text(r) : gen_text(r, 40)); break;
        case 'b': { int len = r.chance(0.8) ? (int)r.range(0, 8) : (int)r.range(0, 40); std::string b; for(int i = 0; i < len; ++i) b += (char)r.next(); a.val.b.len = len; a.val.b.data = st.blob(b); break; }
        case 'm': for(int k = 0; k < 4; ++k) a.val.m[k] = (uint8_t)r.next(); break;
        case 't': {
            if(r.chance(0.25)) { a.val.t = 1; break; }
            // seconds: 1970..2100, "round" times frequent; fraction: float representable (<= 24 significant bits)
            uint64_t secs;
            switch(r.below(4)) { case 0: secs = (uint64_t)r.below(4102444800ull); break; case 1: secs = (uint64_t)r.below(47000) * 86400; break; case 2: secs = (uint64_t)r.below(47000) * 86400 + (uint64_t)r.below(24) * 3600 + (uint64_t)r.below(60) * 60; break; default: secs = 1479325446; }
            uint64_t fr = 0;
            // any fraction with at most 24 significant bits, wherever they lie in the 32-bit field
            if(r.chance(0.4)) { static const uint32_t F[] = {0x80000000u, 0x40000000u, 0x20000000u, 0xc0000000u, 0x00010000u, 0xffffff00u, 0x00000100u, 0x00000003u, 0x0000000fu, 0x00000001u, 0x00ffffffu};
                                fr = r.chance(0.5) ? F[r.below(11)] : (uint32_t)(((uint32_t)r.next() & (0xffffffu >> r.below(20))) << r.below(9)); }
            a.val.t = (secs << 32) | fr;
            if(r.chance(0.03)) a.val.t = 0;      // 1970-01-01 00:00:00 sharp is a time, not "immediately"
            if(a.val.t == 1) a.val.t = 0;
            break; }
        case 'T': a.val.T = 1; break;
        default: break;
    }
    return a;
}

// ---------------------------------------------------------------- flat expansion
// a value of the expanded form: scalars, and arrays as (type 'a', elems)
struct XV { av_t v; bool is_arr = false; char arr_type = 0; std::vector<XV> elems;
            bool inf = false; bool inf_has_delta = false; av_t inf_delta, inf_start; };   // inf: endless range (only at the end of arrays)

// start + i*delta, computed by the harness itself for the numeric types (the library's own
// arithmetic helpers are part of what is being checked)
static inline bool step_value(const av_t &start, const av_t &delta, int i, av_t &out)
{
    if(start.type == delta.type) {
        out = start;
        switch(start.type) {
            case 'i': case 'c': out.val.i = (int32_t)((uint32_t)start.val.i + (uint32_t)i * (uint32_t)delta.val.i); return true;
            case 'h': out.val.h = (int64_t)((uint64_t)start.val.h + (uint64_t)(int64_t)i * (uint64_t)delta.val.h); return true;
            case 'f': { volatile float n = (float)i; volatile float m = n * delta.val.f; out.val.f = start.val.f + m; return true; }
            case 'd': { volatile double n = (double)i; volatile double m = n * delta.val.d; out.val.d = start.val.d + m; return true; }
            default: break;
        }
    }
    av_t n, m;
    if(!rtosc_arg_val_from_int(&n, delta.type, i)) return false;
    if(!rtosc_arg_val_mult(&n, &delta, &m)) return false;
    return rtosc_arg_val_add(&start, &m, &out);
}

// expands `n` slots starting at a; returns false on malformed input
static inline bool expand(const av_t *a, size_t n, std::vector<XV> &out, int depth = 0)
{
    size_t i = 0;
    while(i < n) {
        if(a[i].type == '-') {
            int num = rtosc_av_rep_num(&a[i]);
            bool hd = rtosc_av_rep_has_delta(&a[i]);
            if(i + 1 + hd >= n) return false;
            const av_t &start = a[i + 1 + hd];
            if(num <= 0) { XV x; x.v = mk('?'); x.inf = true; x.inf_has_delta = hd; if(hd) x.inf_delta = a[i + 1]; x.inf_start = start; out.push_back(x); return true; }  // endless range
            if(start.type == 'a') {
                size_t len = rtosc_av_arr_len(&start);
                for(int k = 0; k < num; ++k) { XV x; x.is_arr = true; x.arr_type = rtosc_av_arr_type(&start); if(!expand(&start + 1, len, x.elems, depth + 1)) return false; out.push_back(x); }
                i += 2 + hd + len;
                continue;
            }
            for(int k = 0; k < num; ++k) { XV x; if(hd) { if(!step_value(start, a[i + 1], k, x.v)) return false; } else x.v = start; out.push_back(x); }
            i += 2 + hd;
        } else if(a[i].type == 'a') {
            size_t len = rtosc_av_arr_len(&a[i]);
            if(i + len >= n + 0 && i + len > n - 0) { if(i + 1 + len > n) return false; }
            XV x; x.is_arr = true; x.arr_type = rtosc_av_arr_type(&a[i]);
            if(!expand(a + i + 1, len, x.elems, depth + 1)) return false;
            out.push_back(x);
            i += 1 + len;
        } else { XV x; x.v = a[i]; out.push_back(x); ++i; }
    }
    return true;
}

static inline bool same_scalar(const av_t &a, const av_t &b)
{
    if(a.type != b.type) return false;
    switch(a.type) {
        case 'i': case 'c': case 'r': return a.val.i == b.val.i;
        case 'h': return a.val.h == b.val.h;
        case 't': return a.val.t == b.val.t;
        // bit-identical, or numerically equal (+0.0 and -0.0: the printer compresses runs with the library's
        // own equality, under which the two zeros are the same value)
        case 'f': return !memcmp(&a.val.f, &b.val.f, 4) || a.val.f == b.val.f;
        case 'd': return !memcmp(&a.val.d, &b.val.d, 8) || a.val.d == b.val.d;
        case 'm': return !memcmp(a.val.m, b.val.m, 4);
        case 's': case 'S': return a.val.s && b.val.s && !strcmp(a.val.s, b.val.s);
        case 'b': return a.val.b.len == b.val.b.len && (a.val.b.len == 0 || !memcmp(a.val.b.data, b.val.b.data, a.val.b.len));
        default: return true;
    }
}
static inline bool same_xv(const std::vector<XV> &a, const std::vector<XV> &b, std::string *why = 0)
{
    if(a.size() != b.size()) { if(why) *why = vh::fmt("%zu values vs %zu", a.size(), b.size()); return false; }
    for(size_t i = 0; i < a.size(); ++i) {
        if(a[i].is_arr != b[i].is_arr) { if(why) *why = vh::fmt("value %zu: array vs scalar", i); return false; }
        if(a[i].inf || b[i].inf) {
            bool ok = a[i].inf && b[i].inf && a[i].inf_has_delta == b[i].inf_has_delta && same_scalar(a[i].inf_start, b[i].inf_start) && (!a[i].inf_has_delta || same_scalar(a[i].inf_delta, b[i].inf_delta));
            if(!ok) { if(why) *why = vh::fmt("value %zu: endless range differs", i); return false; }
            continue;
        }
        if(a[i].is_arr) { std::string w; if(!same_xv(a[i].elems, b[i].elems, &w)) { if(why) *why = vh::fmt("array at %zu: ", i) + w; return false; } }
        else if(!same_scalar(a[i].v, b[i].v)) { if(why) *why = vh::fmt("value %zu differs (type '%c' vs '%c')", i, a[i].v.type, b[i].v.type); return false; }
    }
    return true;
}

static inline std::string render_scalar(const av_t &a)
{
    switch(a.type) {
        case 'i': case 'c': return vh::fmt("%c:%d", a.type, a.val.i);
        case 'r': return vh::fmt("r:%08x", (uint32_t)a.val.i);
        case 'h': return vh::fmt("h:%lld", (long long)a.val.h);
        case 't': return vh::fmt("t:%016llx", (unsigned long long)a.val.t);
        case 'f': { uint32_t u; memcpy(&u, &a.val.f, 4); return vh::fmt("f:%a[%08x]", a.val.f, u); }
        case 'd': return vh::fmt("d:%a", a.val.d);
        case 'm': return vh::fmt("m:%02x%02x%02x%02x", a.val.m[0], a.val.m[1], a.val.m[2], a.val.m[3]);
        case 's': case 'S': return vh::fmt("%c:\"", a.type) + vh::vis(a.val.s ? a.val.s : "<null>") + "\"";
        case 'b': return "b:" + vh::hexs(a.val.b.data, a.val.b.len > 16 ? 16 : a.val.b.len) + vh::fmt("(%d)", a.val.b.len);
        case 'a': return vh::fmt("a['%c',%d]", rtosc_av_arr_type(&a), rtosc_av_arr_len(&a));
        case '-': return vh::fmt("range[n=%d%s]", rtosc_av_rep_num(&a), rtosc_av_rep_has_delta(&a) ? ",delta" : "");
        default: return std::string(1, a.type ? a.type : '0');
    }
}
static inline std::string render(const av_t *a, size_t n)
{
    std::string s;
    for(size_t i = 0; i < n; ++i) s += render_scalar(a[i]) + " ";
    return s.empty() ? "(empty)" : s;
}

} // namespace av
