// C05 — path-pattern matching follows the documented pattern language.
// Oracle: reference matcher patref.h.  Modes: "exh" (exhaustive small scope,
// guard-page buffers), "rand" (larger random patterns, hashed one-port tables).
#include "vh.h"
#include "patref.h"
#include <rtosc/rtosc.h>
#include <rtosc/ports.h>
using namespace vh;
using pat::Item;
using pat::Pattern;

static GuardBuf *GM, *GP;

static const char ALPHA[] = "abcx0129/:#";   // 11 address symbols
static const char *TYPES9[9] = {"", "i", "f", "ii", "if", "s", "T", "is", "iii"};
static const std::vector<std::vector<std::string>> SPECS = {{}, {"i"}, {"f", "i"}, {"", "s"}, {"iii", "i"}};

static Item lit(const char *s) { Item i; i.kind = Item::LIT; i.lit = s; return i; }
static Item en(long n) { Item i; i.kind = Item::ENUM; i.n = n; return i; }
static Item opt(std::initializer_list<const char *> a) { Item i; i.kind = Item::OPT; for(auto x : a) i.alts.push_back(x); return i; }

static std::vector<Pattern> g_base;   // path patterns (no spec)
static void build_base()
{
    std::vector<Item> L = {lit("a"), lit("b"), lit("ab")};
    std::vector<Item> N = {en(1), en(2), en(10), en(12), opt({"a", "b"}), opt({"a", "ab"}), opt({"ab", "a"}), opt({"ab", "ba"}),
                           opt({"a", ""}), opt({"", "b"}), opt({"b", "ab", "ba"})};
    std::vector<Item> all = L; all.insert(all.end(), N.begin(), N.end());
    std::vector<std::vector<Item>> seqs;
    for(auto &a : all) seqs.push_back({a});
    for(auto &a : all) for(auto &b : all) { if(a.kind == Item::LIT && b.kind == Item::LIT) continue; if(a.kind == Item::ENUM && b.kind == Item::ENUM) continue; seqs.push_back({a, b}); }
    for(auto &a : L) for(auto &b : N) for(auto &c : L) seqs.push_back({a, b, c});
    for(auto &s : seqs) for(int sl = 0; sl < 2; ++sl) { Pattern p; p.items = s; p.slash = sl; g_base.push_back(p); }
}

static std::string osc_message(const std::string &addr, const std::string &types)
{
    std::string m = addr;
    m.append(4 - m.size() % 4, '\0');
    m += "," + types;
    m.append(4 - m.size() % 4, '\0');
    return m;
}

static std::vector<std::string> case_tags(const Pattern &p, const std::string &addr)
{
    std::vector<std::string> t;
    if(pat::path_match(p, addr) && !pat::path_match(p, addr, 0, true)) t.push_back("options_backtracking_needed");
    if(addr.find(':') != std::string::npos) t.push_back("colon_in_address");
    return t;
}

// compare the library with the reference on (pattern p with spec, address, types)
static void judge_full(const Pattern &p, const std::string &addr, const std::string &types, bool ref_path, size_t consumed)
{
    std::string ptxt = p.text();
    std::string msg = osc_message(addr, types);
    const char *pp = GP->place_copy(ptxt.c_str(), ptxt.size() + 1);
    const char *mm = GM->place_copy(msg.data(), msg.size());
    const char *pe = (const char *)1;
    bool lib = rtosc_match(pp, mm, &pe);
    count("pairs.rtosc_match");
    int tv = pat::type_verdict(p, types);
    std::string desc = "pattern=" + ptxt + " address=" + addr + " types=," + types;
    if(!ref_path) {
        if(lib) fail("match_but_path_must_not", case_tags(p, addr), desc, "rtosc_match true", "false (address does not spell the pattern)");
        return;
    }
    if(tv == 1) {
        count("verdict.must_match");
        if(!lib) fail("path_and_types_must_match", case_tags(p, addr), desc, "rtosc_match false", "true");
        else if(!p.slash ? (pe != mm + addr.size()) : (pe != mm + consumed)) fail("path_end", case_tags(p, addr), desc, fmt("path_end offset %ld", (long)(pe - mm)), fmt("%zu", p.slash ? consumed : addr.size()));
    } else if(tv == 0) {
        count("verdict.must_not_match_types");
        if(lib) fail("types_must_not_match", case_tags(p, addr), desc, "rtosc_match true", "false (type string neither equals nor extends an alternative)");
    } else
        count("verdict.types_dont_care");
}

static uint64_t g_pairs = 0;
static void judge_address(const Pattern &base, const std::string &addr, unsigned rot)
{
    size_t consumed = 0;
    bool refp = pat::path_match(base, addr, &consumed);
    // path-only entry point
    std::string ptxt = base.text();
    const char *pp = GP->place_copy(ptxt.c_str(), ptxt.size() + 1);
    const char *mm = GM->place_copy(addr.c_str(), addr.size() + 1);
    const char *pe = 0;
    const char *r = rtosc_match_path(pp, mm, &pe);
    ++g_pairs;
    count("pairs.rtosc_match_path");
    std::string desc = "pattern=" + ptxt + " address=" + addr;
    if(refp) {
        count("path.ref_matches");
        if(!r) fail("path_must_match", case_tags(base, addr), desc, "rtosc_match_path NULL", "match");
        else {
            if(*r != 0 && *r != ':') fail("path_return_pointer", case_tags(base, addr), desc, fmt("returns pattern+%ld", (long)(r - pp)), "end of path part");
            if(pe != mm + consumed) fail("path_end", case_tags(base, addr), desc, fmt("path_end offset %ld", (long)(pe - mm)), fmt("%zu", consumed));
        }
        // all type specs x all type strings
        for(size_t s = 0; s < SPECS.size(); ++s) {
            Pattern p = base;
            p.has_spec = s != 0;
            p.spec = SPECS[s];
            for(int t = 0; t < 9; ++t) { judge_full(p, addr, TYPES9[t], true, consumed); ++g_pairs; }
        }
    } else {
        if(r) fail("path_must_not_match", case_tags(base, addr), desc, "rtosc_match_path matches", "no match");
        // one rotating (spec, types) combination: the arguments must not rescue a failed path
        Pattern p = base;
        size_t s = rot % SPECS.size();
        p.has_spec = s != 0;
        p.spec = SPECS[s];
        judge_full(p, addr, TYPES9[(rot / 5) % 9], false, 0);
        ++g_pairs;
    }
}

static void run_exh(uint64_t i)
{
    const Pattern &base = g_base[i / 12];
    int k = (int)(i % 12);
    int maxlen = g_args.thorough() ? 6 : 4;
    if(g_args.verbose) describe_case("pattern=" + base.text() + fmt(" address block %d", k));
    distinct(hash_str(base.text(), k));
    if(k == 11) { judge_address(base, "", (unsigned)i); return; }
    // all addresses starting with ALPHA[k], length 1..maxlen
    std::string a(1, ALPHA[k]);
    unsigned rot = (unsigned)i;
    std::function<void(int)> rec = [&](int len) {
        judge_address(base, a, rot++);
        if(len == maxlen) return;
        for(int c = 0; c < 11; ++c) { a.push_back(ALPHA[c]); rec(len + 1); a.pop_back(); }
    };
    rec(1);
    if((i % 97) == 0) sample(jstr("pattern=" + base.text() + " x all addresses starting with '" + std::string(1, ALPHA[k]) + "' x 5 type specs x 9 type strings"), 6);
}

// ---------------------------------------------------------------- random larger patterns
static std::string rnd_lit(Rng &r, bool first)
{
    static const char *W[] = {"a", "b", "ab", "ba", "osc", "Pvol", "x_y", "voice", "a-b", "Q", "part", "kit", "-6dB", "+6", "-12dB", "+0"};
    (void)first;
    return W[r.below(16)];
}
static Pattern gen_pattern(Rng &r)
{
    Pattern p;
    int n = (int)r.range(1, 6);
    bool prev_lit = false, prev_enum = false;
    for(int i = 0; i < n; ++i) {
        int k = (int)r.below(prev_lit ? 2 : 3);   // no two literals in a row
        if(prev_lit) k += 1;
        if(prev_enum && k == 1) k = 2;            // no two enumerations in a row (ambiguous)
        if(k == 0) { p.items.push_back(lit(rnd_lit(r, i == 0).c_str())); prev_lit = true; prev_enum = false; }
        else if(k == 1) {
            static const long NS[] = {1, 2, 3, 8, 10, 12, 16, 100, 128, 1000, 999999999};
            p.items.push_back(en(NS[r.below(11)]));
            prev_lit = false; prev_enum = true;
        } else {
            Item o; o.kind = Item::OPT;
            int na = (int)r.range(1, 4);
            for(int a = 0; a < na; ++a) o.alts.push_back(r.chance(0.1) ? "" : rnd_lit(r, false));
            p.items.push_back(o);
            prev_lit = false; prev_enum = false;
        }
        // an inner '/' separator between components (multi-component names like a#3/b#2/c/)
        if(i + 1 < n && r.chance(0.2)) { p.items.push_back(lit("/")); prev_lit = false; prev_enum = false; }
    }
    (void)prev_enum;
    p.slash = r.chance(0.4);
    if(r.chance(0.6)) {
        p.has_spec = true;
        int na = (int)r.range(1, 3);
        static const char *TS[] = {"", "i", "f", "s", "ii", "if", "T", "F", "iii", "c", "sf", "b"};
        for(int a = 0; a < na; ++a) p.spec.push_back(TS[r.below(12)]);
    }
    return p;
}
// an address that spells the pattern (index chosen in/at/above range)
static std::string spell(const Pattern &p, Rng &r, bool &in_range)
{
    std::string a;
    in_range = true;
    for(auto &it : p.items) {
        if(it.kind == Item::LIT) a += it.lit;
        else if(it.kind == Item::OPT) a += it.alts[r.below(it.alts.size())];
        else {
            long v;
            switch(r.below(6)) {
                case 0: v = 0; break;
                case 1: v = it.n - 1; break;
                case 2: v = it.n; break;
                case 3: v = it.n + 1; break;
                default: v = (long)r.below((uint64_t)it.n + 3); break;
            }
            if(v < 0) v = 0;
            if(v > 999999999) v = 999999999;
            if(v >= it.n) in_range = false;
            std::string d = std::to_string(v);
            if(r.chance(0.25)) { int z = (int)r.range(1, 9 - (int)d.size() > 0 ? 9 - (int)d.size() : 1); if(d.size() + z <= 9) d = std::string(z, '0') + d; }
            a += d;
        }
    }
    if(p.slash) { a += "/"; if(r.chance(0.7)) a += r.chance(0.5) ? "rest" : "x/y:z"; }
    return a;
}

struct OnePort : rtosc::Ports {
    OnePort() : Ports({}) {}
    void set(const char *name, std::function<void(const char *, rtosc::RtData &)> cb)
    {
        ports.clear();
        ports.push_back({name, 0, 0, cb});
        refreshMagic();
    }
};

static void run_rand(Rng &r)
{
    Pattern p = gen_pattern(r);
    bool in_range;
    std::string addr = spell(p, r, in_range);
    std::string how = "exact";
    if(r.chance(0.55) && !addr.empty()) {
        size_t o = (size_t)r.below(addr.size());
        switch(r.below(4)) {
            case 0: addr.erase(o, 1); how = "erase"; break;
            case 1: addr.insert(o, 1, "abx0/:#_"[r.below(8)]); how = "insert"; break;
            case 2: addr[o] = "abx0/:#_9"[r.below(9)]; how = "change"; break;
            case 3: addr += "abx0/"[r.below(5)]; how = "append"; break;
        }
    }
    // indices of more than 9 digits are outside the stated scope (and overflow atoi): not generated
    { size_t run = 0; for(char c : addr) { run = isdigit((unsigned char)c) ? run + 1 : 0; if(run > 9) { count("rand.skipped_10_digit_index"); return; } } }
    static const char *TS[] = {"", "i", "f", "s", "ii", "if", "T", "F", "iii", "c", "sf", "b", "is", "fi", "iiii"};
    std::string types = TS[r.below(15)];
    std::string desc = "pattern=" + p.text() + " address=" + addr + " types=," + types + " (" + how + ")";
    describe_case(desc, case_tags(p, addr));
    distinct(hash_str(desc));
    sample(jstr(desc));
    size_t consumed = 0;
    bool refp = pat::path_match(p, addr, &consumed);
    count(refp ? "rand.ref_path_match" : "rand.ref_path_nomatch");
    if(!in_range) count("rand.index_out_of_range");
    judge_full(p, addr, types, refp, consumed);
    ++g_pairs;
    {
        Pattern base = p; base.has_spec = false;
        std::string ptxt = base.text();
        const char *pp = GP->place_copy(ptxt.c_str(), ptxt.size() + 1);
        const char *mm = GM->place_copy(addr.c_str(), addr.size() + 1);
        const char *pe = 0;
        const char *rr = rtosc_match_path(pp, mm, &pe);
        if(refp && !rr) fail("path_must_match", case_tags(p, addr), desc, "rtosc_match_path NULL", "match");
        if(!refp && rr) fail("path_must_not_match", case_tags(p, addr), desc, "rtosc_match_path matches", "no match");
    }
    // literal(+types) patterns: also through a one-port table with and without a location buffer
    // (the hashed branch carries private copies of the type matcher)
    bool literal_only = p.items.size() == 1 && p.items[0].kind == Item::LIT;
    if(literal_only && addr.find('/') == std::string::npos && !addr.empty()) {
        static OnePort op;
        static int hits;
        std::string name = p.text();
        op.set(name.c_str(), [](const char *, rtosc::RtData &) { ++hits; });
        std::string msg = osc_message(addr, types);
        int tv = pat::type_verdict(p, types);
        for(int withloc = 0; withloc < 2; ++withloc) {
            rtosc::RtData d;
            char loc[128];
            memset(loc, 0, sizeof loc);
            if(withloc) { d.loc = loc; d.loc_size = sizeof loc; }
            hits = 0;
            op.dispatch(msg.c_str(), d);
            count(withloc ? "table.dispatch_hashed" : "table.dispatch_linear");
            const char *who = withloc ? "table_hashed" : "table_linear";
            if(refp && tv == 1 && hits != 1) fail(std::string(who) + "_must_deliver", case_tags(p, addr), desc, std::to_string(hits), "1");
            if((!refp || tv == 0) && hits != 0) fail(std::string(who) + "_must_not_deliver", case_tags(p, addr), desc, std::to_string(hits), "0");
        }
    }
}

int main(int argc, char **argv)
{
    GuardBuf gm(4096), gp(4096);
    GM = &gm; GP = &gp;
    build_base();
    parse_args(argc, argv);
    bool exh = g_args.mode == "exh";
    int rc = 0;
    begin(argc, argv);
    for(uint64_t i = g_args.from; i < g_args.from + g_args.count; ++i) {
        g_case_index = (int64_t)i;
        g_progress.fetch_add(1);
        if(exh) { if(i / 12 < g_base.size()) run_exh(i); }
        else { Rng r = case_rng(0xC05, i); run_rand(r); }
    }
    g_evaluations = g_pairs;
    count("patterns.base", exh ? 0 : 0);
    g_case_index = -1;
    finish();
    return rc;
}
