// Generators for OSC messages (address, type string, values) shared by the
// codec harnesses C01 C02 C07 C08, plus library call adapters (amessage,
// hand-built va_list, true varargs, arg-val list).
#pragma once
#include <stdarg.h>
#include <array>
#include <rtosc/rtosc.h>
#include <rtosc/arg-val.h>
#include <rtosc/arg-ext.h>
#include "vh.h"
#include "refosc.h"

namespace gen {
using vh::Rng;
using ref::Val;

static const char TAGS17[] = "ifsbhtdScrmTFNI[]";
static const char TAGS15[] = "ifsbhtdScrmTFNI";

struct Msg {
    std::string addr, types;
    std::vector<Val> vals; // one per non-bracket tag
    std::string render() const { return ref::render(addr, types, vals); }
    ref::bytes encode() const { return ref::encode(addr, types, vals); }
    size_t nvals() const { return vals.size(); }
    size_t ncarry() const
    {
        size_t n = 0;
        for(char t : types) n += ref::carries(t);
        return n;
    }
};

static inline std::string gen_addr(Rng &r, int want_mod = -1, int maxlen = 64)
{
    int len;
    if(want_mod >= 0) {
        int k = (int)r.below((maxlen - want_mod) / 4 + 1);
        len = want_mod + 4 * k;
        if(len == 0) len = 4;
    } else
        len = (int)r.range(1, maxlen);
    if(len > maxlen) len -= 4;
    // (any address: a few spell almost, or more than, the bundle marker)
    if(want_mod < 0 && r.chance(0.01)) { static const char *NB[] = {"#bundles", "#bundle/x", "#bundle2", "#bundl", "/#bundle", "#bundle/gain", "#bundlE", "#bundle#"}; return NB[r.below(8)]; }
    std::string s;
    bool slash = r.chance(0.85);
    for(int i = 0; i < len; ++i) {
        if(i == 0 && slash) { s += '/'; continue; }
        unsigned c = r.chance(0.7) ? "abcdefgxyz0123456789/_-#"[r.below(24)] : (unsigned)r.range(0x21, 0x7e);
        s += (char)c;
    }
    return s;
}

static inline std::string gen_string(Rng &r)
{
    static const int lens[] = {0, 1, 2, 3, 4, 5, 7, 8, 9, 11, 12, 15, 16, 17};
    int len = r.chance(0.9) ? lens[r.below(14)] : (int)r.range(0, 70);
    std::string s;
    for(int i = 0; i < len; ++i) s += r.chance(0.8) ? (char)r.range(0x20, 0x7e) : (char)r.range(1, 255);
    return s;
}

// profile 0 zeros, 1 extremes, 2 random
static inline Val gen_val(Rng &r, char t, int profile)
{
    Val v;
    v.type = t;
    static const uint32_t X32[] = {0x80000000u, 0x7fffffffu, 0xffffffffu, 0x00000001u, 0x7f800000u, 0xff800000u,
                                   0x7fc00001u, 0xffc12345u, 0x00000001u, 0x80000000u, 0x007fffffu, 0x000000ffu,
                                   0xff000000u, 0x00ff0000u};
    static const uint64_t X64[] = {0x8000000000000000ull, 0x7fffffffffffffffull, 0xffffffffffffffffull, 1ull,
                                   0x7ff0000000000000ull, 0xfff0000000000000ull, 0x7ff8000000000001ull,
                                   0xfff8123456789abcull, 0x000fffffffffffffull, 0x00000000ffffffffull,
                                   0xffffffff00000000ull, 0x00ff00ff00ff00ffull};
    switch(t) {
        case 'i': case 'c': case 'r': case 'f':
            v.u32 = profile == 0 ? 0 : profile == 1 ? X32[r.below(14)] : (uint32_t)r.next();
            if(t == 'c' && profile == 2 && r.chance(0.5)) v.u32 = (uint32_t)r.range(0, 255);
            break;
        case 'h': case 't': case 'd':
            v.u64 = profile == 0 ? 0 : profile == 1 ? X64[r.below(12)] : r.next();
            break;
        case 'm':
            for(int k = 0; k < 4; ++k) v.m[k] = profile == 0 ? 0 : profile == 1 ? 0xff : (unsigned char)r.next();
            break;
        case 's': case 'S':
            if(profile == 0) v.s = "";
            else if(profile == 1) v.s = std::string((size_t)(4 * r.range(0, 4) + r.range(-1, 1) + 4), 'x');
            else v.s = gen_string(r);
            break;
        case 'b': {
            size_t len = profile == 0 ? 0 : profile == 1 ? (size_t)(4 * r.range(1, 4) + r.range(-1, 1)) : (size_t)r.range(0, r.chance(0.85) ? 9 : r.chance(0.6) ? 60 : r.chance(0.8) ? 700 : 70000);
            v.blob.resize(len);
            v.blob_null = r.chance(0.2);
            for(auto &c : v.blob) c = v.blob_null ? 0 : (unsigned char)r.next();
            break;
        }
        default: break;
    }
    return v;
}

static inline Msg gen_msg_for(Rng &r, const std::string &addr, const std::string &types, int profile)
{
    Msg m;
    m.addr = addr;
    m.types = types;
    for(char t : types)
        if(t != '[' && t != ']') m.vals.push_back(gen_val(r, t, profile < 0 ? (int)r.below(3) : profile));
    return m;
}

static inline std::string gen_types(Rng &r, int maxlen, bool brackets = true)
{
    int len = (int)r.range(0, maxlen);
    std::string t;
    for(int i = 0; i < len; ++i) t += brackets ? TAGS17[r.below(17)] : TAGS15[r.below(15)];
    return t;
}

static inline Msg gen_msg(Rng &r, int maxtypes = 12, bool brackets = true)
{
    return gen_msg_for(r, gen_addr(r), gen_types(r, r.chance(0.9) ? maxtypes : 40, brackets), -1);
}

// k-th type string of the exhaustive enumeration over 17 symbols (length 0,1,2,...)
static inline std::string nth_types(uint64_t k)
{
    uint64_t n = 1;
    int len = 0;
    while(k >= n) { k -= n; n *= 17; ++len; }
    std::string s(len, 'i');
    for(int i = len - 1; i >= 0; --i) { s[i] = TAGS17[k % 17]; k /= 17; }
    return s;
}
static inline uint64_t count_types_upto(int len)
{
    uint64_t n = 1, tot = 0;
    for(int i = 0; i <= len; ++i) { tot += n; n *= 17; }
    return tot;
}

// ---------------------------------------------------------------- library adapters
// rtosc_arg_t array: one entry per value-carrying tag
struct ArgPack {
    std::vector<rtosc_arg_t> args;
    std::vector<std::vector<unsigned char>> keep;
    std::vector<std::string> keeps;
    explicit ArgPack(const Msg &m)
    {
        keeps.reserve(m.vals.size());
        keep.reserve(m.vals.size());
        size_t vi = 0;
        for(char t : m.types) {
            if(t == '[' || t == ']') continue;
            const Val &v = m.vals[vi++];
            if(!ref::carries(t)) continue;
            rtosc_arg_t a;
            memset(&a, 0, sizeof a);
            switch(t) {
                case 'i': case 'c': case 'r': a.i = (int32_t)v.u32; break;
                case 'f': memcpy(&a.f, &v.u32, 4); break;
                case 'h': a.h = (int64_t)v.u64; break;
                case 't': a.t = v.u64; break;
                case 'd': memcpy(&a.d, &v.u64, 8); break;
                case 'm': memcpy(a.m, v.m, 4); break;
                case 's': case 'S':
                    keeps.push_back(v.s);
                    a.s = keeps.back().c_str();
                    break;
                case 'b':
                    keep.push_back(v.blob);
                    a.b.len = (int32_t)v.blob.size();
                    // exact-size heap copy so that an over-read is an ASan report
                    a.b.data = v.blob_null ? NULL : (keep.back().empty() ? (uint8_t *)"" : keep.back().data());
                    break;
            }
            args.push_back(a);
        }
    }
    const rtosc_arg_t *data() const { return args.empty() ? NULL : args.data(); }
};

// true when every float/double NaN in the message is quiet, so that the value
// survives C's default argument promotion float->double->float bit-exactly
static inline bool varargs_exact(const Msg &m)
{
    for(auto &v : m.vals)
        if(v.type == 'f') {
            bool nan = (v.u32 & 0x7f800000u) == 0x7f800000u && (v.u32 & 0x007fffffu);
            if(nan && !(v.u32 & 0x00400000u)) return false;
        }
    return true;
}

// hand-built va_list (x86-64 SysV): all arguments come from overflow_arg_area
struct VaPack {
    std::vector<uint64_t> slots;
    ArgPack ap;
    std::vector<std::array<uint8_t, 4>> midis;
    explicit VaPack(const Msg &m) : ap(m)
    {
        midis.reserve(ap.args.size());
        size_t ai = 0;
        for(char t : m.types) {
            if(!ref::carries(t)) continue;
            const rtosc_arg_t &a = ap.args[ai++];
            uint64_t s = 0;
            switch(t) {
                case 'i': case 'c': case 'r': s = (uint32_t)a.i; slots.push_back(s); break;
                case 'f': { double d = a.f; memcpy(&s, &d, 8); slots.push_back(s); break; }
                case 'd': memcpy(&s, &a.d, 8); slots.push_back(s); break;
                case 'h': case 't': s = (uint64_t)a.h; slots.push_back(s); break;
                case 'm': {
                    std::array<uint8_t, 4> mm;
                    memcpy(mm.data(), a.m, 4);
                    midis.push_back(mm);
                    s = (uint64_t)(uintptr_t)midis.back().data();
                    slots.push_back(s);
                    break;
                }
                case 's': case 'S': s = (uint64_t)(uintptr_t)a.s; slots.push_back(s); break;
                case 'b':
                    slots.push_back((uint32_t)a.b.len);
                    slots.push_back((uint64_t)(uintptr_t)a.b.data);
                    break;
            }
        }
        slots.push_back(0xdeadbeefdeadbeefull);
    }
    size_t call(char *buf, size_t len, const Msg &m)
    {
        struct { unsigned gp, fp; void *ov, *reg; } raw = {48, 304, (void *)slots.data(), 0};
        va_list va;
        static_assert(sizeof(va) == sizeof(raw), "x86-64 SysV va_list expected");
        memcpy(va, &raw, sizeof raw);
        return rtosc_vmessage(buf, len, m.addr.c_str(), m.types.c_str(), va);
    }
};

// true `...` calls: up to 3 value-carrying arguments through generated call sites.
// F is any callable taking the C-level variadic arguments.
namespace tv {
struct Ctx { const rtosc_arg_t *a; const char *t; std::array<uint8_t,4> *mid; };
template <int N, class F, class... A> struct Rec {
    static size_t go(F &f, Ctx &c, int k, int n, A... acc)
    {
        if(k == n) return f(acc...);
        const rtosc_arg_t &x = c.a[k];
        switch(c.t[k]) {
            case 'i': case 'c': case 'r': return Rec<N - 1, F, A..., int>::go(f, c, k + 1, n, acc..., (int)x.i);
            case 'h': case 't': return Rec<N - 1, F, A..., int64_t>::go(f, c, k + 1, n, acc..., (int64_t)x.h);
            case 'f': return Rec<N - 1, F, A..., double>::go(f, c, k + 1, n, acc..., (double)x.f);
            case 'd': return Rec<N - 1, F, A..., double>::go(f, c, k + 1, n, acc..., x.d);
            case 's': case 'S': return Rec<N - 1, F, A..., const char *>::go(f, c, k + 1, n, acc..., x.s);
            case 'm': memcpy(c.mid[k].data(), x.m, 4);
                return Rec<N - 1, F, A..., const char *>::go(f, c, k + 1, n, acc..., (const char *)c.mid[k].data());
            case 'b': return Rec<N - 1, F, A..., int, const char *>::go(f, c, k + 1, n, acc..., (int)x.b.len, (const char *)x.b.data);
        }
        return 0;
    }
};
template <class F, class... A> struct Rec<0, F, A...> {
    static size_t go(F &f, Ctx &, int, int, A... acc) { return f(acc...); }
};
} // namespace tv

static const int TRUE_VARARGS_MAX = 3;
// calls f(<variadic C arguments of m>) ; m must have <= TRUE_VARARGS_MAX value-carrying args
template <class F> static inline size_t with_true_varargs(const Msg &m, const ArgPack &ap, F f)
{
    std::string ct;
    for(char t : m.types) if(ref::carries(t)) ct += t;
    std::array<uint8_t, 4> mid[4];
    tv::Ctx c{ap.data(), ct.c_str(), mid};
    return tv::Rec<TRUE_VARARGS_MAX, F>::go(f, c, 0, (int)ct.size());
}
static inline size_t call_true_varargs(char *buf, size_t len, const Msg &m, const ArgPack &ap)
{
    const char *addr = m.addr.c_str(), *types = m.types.c_str();
    return with_true_varargs(m, ap, [=](auto... a) -> size_t { return rtosc_message(buf, len, addr, types, a...); });
}

// arg-val list (no brackets possible)
struct AvPack {
    std::vector<rtosc_arg_val_t> av;
    ArgPack ap;
    explicit AvPack(const Msg &m) : ap(m)
    {
        size_t ai = 0;
        for(char t : m.types) {
            rtosc_arg_val_t x;
            memset(&x, 0, sizeof x);
            x.type = t;
            if(ref::carries(t)) x.val = ap.args[ai++];
            else if(t == 'T') x.val.T = 1;
            av.push_back(x);
        }
    }
};


// ---------------------------------------------------------------- bundles
struct Elem {
    bool is_bundle = false;
    Msg msg;                 // when !is_bundle
    uint64_t tt = 0;         // when is_bundle
    std::vector<Elem> kids;
    ref::bytes encode() const
    {
        if(!is_bundle) return msg.encode();
        std::vector<ref::bytes> e;
        for(auto &k : kids) e.push_back(k.encode());
        return ref::bundle(tt, e);
    }
    int depth() const { int d = 0; for(auto &k : kids) d = std::max(d, k.depth()); return is_bundle ? d + 1 : 0; }
    std::string render() const
    {
        if(!is_bundle) return "{" + msg.render() + "}";
        std::string o = vh::fmt("#bundle(tt=%016llx)[", (unsigned long long)tt);
        for(auto &k : kids) o += k.render();
        return o + "]";
    }
};
static inline uint64_t gen_tt(Rng &r)
{
    switch(r.below(5)) { case 0: return 0; case 1: return 1; case 2: return ~0ull; default: return r.next(); }
}
static const int MAX_BUNDLE_ELEMS = 12;
static inline Elem gen_elem(Rng &r, int maxdepth, bool force_bundle = false)
{
    Elem e;
    if(force_bundle || (maxdepth > 0 && r.chance(0.3))) {
        e.is_bundle = true;
        e.tt = gen_tt(r);
        int n = (int)r.range(0, maxdepth >= 3 ? 3 : 8);
        if(r.chance(0.15)) n = 0;
        else if(force_bundle && r.chance(0.08)) n = (int)r.range(9, MAX_BUNDLE_ELEMS);   // beyond what the property quantifies (0..8), still a bundle
        for(int i = 0; i < n; ++i) e.kids.push_back(gen_elem(r, maxdepth - 1));
    } else {
        e.msg = gen_msg(r, 6, true);
        // the shortest possible messages (8 bytes: short address, no arguments) sit on every "is there room for another element" boundary
        if(r.chance(0.08)) { static const char *SA[] = {"/go", "/a", "/ab", "/"}; e.msg.addr = SA[r.below(4)]; e.msg.types.clear(); e.msg.vals.clear(); }
        // addresses that come close to the bundle marker stay messages; only the exact spelling is a bundle
        if(r.chance(0.04)) { static const char *near[] = {"#bundle2", "#bundles/gain", "#bundl", "#bundlE", "#bundle/", "#bundle#", "#bundle "}; e.msg.addr = near[r.below(7)]; }
        if(e.msg.addr == "#bundle") e.msg.addr = "/bundle";
    }
    return e;
}
// rtosc_bundle with n elements (each pointer is a buffer followed by >=4 zero bytes)
static inline size_t call_bundle(char *buf, size_t len, uint64_t tt, const std::vector<const char *> &e)
{
    switch(e.size()) {
        case 0: return rtosc_bundle(buf, len, tt, 0);
        case 1: return rtosc_bundle(buf, len, tt, 1, e[0]);
        case 2: return rtosc_bundle(buf, len, tt, 2, e[0], e[1]);
        case 3: return rtosc_bundle(buf, len, tt, 3, e[0], e[1], e[2]);
        case 4: return rtosc_bundle(buf, len, tt, 4, e[0], e[1], e[2], e[3]);
        case 5: return rtosc_bundle(buf, len, tt, 5, e[0], e[1], e[2], e[3], e[4]);
        case 6: return rtosc_bundle(buf, len, tt, 6, e[0], e[1], e[2], e[3], e[4], e[5]);
        case 7: return rtosc_bundle(buf, len, tt, 7, e[0], e[1], e[2], e[3], e[4], e[5], e[6]);
        case 8: return rtosc_bundle(buf, len, tt, 8, e[0], e[1], e[2], e[3], e[4], e[5], e[6], e[7]);
        case 9: return rtosc_bundle(buf, len, tt, 9, e[0], e[1], e[2], e[3], e[4], e[5], e[6], e[7], e[8]);
        case 10: return rtosc_bundle(buf, len, tt, 10, e[0], e[1], e[2], e[3], e[4], e[5], e[6], e[7], e[8], e[9]);
        case 11: return rtosc_bundle(buf, len, tt, 11, e[0], e[1], e[2], e[3], e[4], e[5], e[6], e[7], e[8], e[9], e[10]);
        default: return rtosc_bundle(buf, len, tt, 12, e[0], e[1], e[2], e[3], e[4], e[5], e[6], e[7], e[8], e[9], e[10], e[11]);
    }
}

} // namespace gen
