// debugging aid (not a registered check): count + scan a text given on the command line
#include "avgen.h"
#include <rtosc/pretty-format.h>
int main(int argc, char **argv)
{
    for(int i = 1; i < argc; ++i) {
        const char *t = argv[i];
        int cnt = rtosc_count_printed_arg_vals(t);
        printf("text=<%s>\n  count=%d\n", t, cnt);
        if(cnt > 0) {
            std::vector<rtosc_arg_val_t> sc(cnt + 8);
            char sb[4096];
            size_t rd = rtosc_scan_arg_vals(t, sc.data(), cnt, sb, sizeof sb);
            printf("  consumed %zu of %zu: %s\n", rd, strlen(t), av::render(sc.data(), cnt).c_str());
            char out[4096]; out[0] = ' ';
            size_t w = rtosc_print_arg_vals(sc.data(), cnt, out + 1, 4000, NULL, 0);
            printf("  reprint(%zu)=<%s>\n", w, out + 1);
        }
    }
    return 0;
}
