// C12 — savefiles restore the saved state and contain only differences from defaults.
// C13 — loading a savefile does not depend on the order of its lines (mode "order").
// Oracle: the zoo application (zoo.h) knows every default (incl. preset-dependent
// ones), the reachable state and which sub-trees are enabled.
#include "zoo.h"
using namespace vh;
using namespace zoo;

static const char *APP = "zoo-app";
static const rtosc_version APPVER = {1, 2, 3};

struct Disp { const char *addr; char type; };

// a random parameter message for one of the zoo's ports
static std::string gen_message(Rng &r, const Cfg &c, std::string &desc)
{
    std::vector<std::string> prefixes = {"/mid/leaf/"};
    if(c.has_many) { prefixes.push_back("/mid/many0/"); prefixes.push_back("/mid/many1/"); prefixes.push_back("/mid/many2/"); }
    if(c.has_top) prefixes.push_back("/top/");
    if(c.has_ptr) prefixes.push_back("/mid/ptr/");
    char buf[256];
    int k = (int)r.below(12);
    if(k == 0) { int v = (int)r.range(-20, 150); rtosc_message(buf, sizeof buf, "/vol", "i", v); desc = fmt("/vol %d", v); }
    else if(k == 1) { int v = (int)r.range(-9, 9); rtosc_message(buf, sizeof buf, "/mid/x", "i", v); desc = fmt("/mid/x %d", v); }
    else if(k == 2 && c.en_is_int) { static const int LV[] = {0, 0, 0, 1, 2, 255, 256, 512, -256, 65536, -1}; int v = LV[r.below(11)]; std::string a = "/mid/" + c.en_name; rtosc_message(buf, sizeof buf, a.c_str(), "i", v); desc = a + fmt(" %d", v); }
    else if(k == 2) { bool v = r.chance(0.5); std::string a = "/mid/" + c.en_name; rtosc_message(buf, sizeof buf, a.c_str(), v ? "T" : "F"); desc = a + (v ? " T" : " F"); }
    else {
        const LeafCfg &L = c.leaf;
        std::string pre = prefixes[r.below(prefixes.size())];
        std::string n = L.order[r.below(L.order.size())];
        std::string a = pre + L.pname(n);
        if(n == "preset") { int v = L.preset_lo + (int)r.below(2); rtosc_message(buf, sizeof buf, a.c_str(), "i", v); desc = a + fmt(" %d", v); }
        else if(n == "a") { int v = r.chance(0.2) ? (r.chance(0.5) ? L.a_min - 5 : L.a_max + 5) : (int)r.range(L.a_min, L.a_max); if(r.chance(0.3)) v = (int)r.range(-12, 130); rtosc_message(buf, sizeof buf, a.c_str(), "i", v); desc = a + fmt(" %d", v); }
        else if(n == "b") { float v = (float)r.range(-440, 440) / 4; if(r.chance(0.1)) { static const float TINY[] = {1e-39f, -1e-39f, 1.17549435e-38f, 3e-42f, 1e-45f, -1.17549435e-38f}; v = L.b_def[0] == 0 || true ? TINY[r.below(6)] : v; } rtosc_message(buf, sizeof buf, a.c_str(), "f", v); desc = a + fmt(" %g", v); }
        else if(n == "c") { int v = (int)r.range(0, 127); rtosc_message(buf, sizeof buf, a.c_str(), "c", v); desc = a + fmt(" %d", v); }
        else if(n == "t" || n == "on") { bool v = r.chance(0.5); rtosc_message(buf, sizeof buf, a.c_str(), v ? "T" : "F"); desc = a + (v ? " T" : " F"); }
        else if(n == "o") { int v = (int)r.below(3); if(r.chance(0.5)) { rtosc_message(buf, sizeof buf, a.c_str(), "S", L.opts[v].c_str()); desc = a + " " + L.opts[v]; } else { rtosc_message(buf, sizeof buf, a.c_str(), "i", v); desc = a + fmt(" %d", v); } }
        else if(n == "s") { static const char *S[] = {"", "x", "hello world", "q\"uo\"te", "per%cent", "new\nline", "back\\sl", "fifteen chars..", "tab\there", "#hash /slash"}; const char *v = S[r.below(10)]; rtosc_message(buf, sizeof buf, a.c_str(), "s", v); desc = a + " \"" + vis(v) + "\""; }
        else if(n == "arr") { int i = (int)r.below(8), v = r.chance(0.5) ? (int)r.range(-3, 3) : (int)r.range(-100, 100); a += std::to_string(i); rtosc_message(buf, sizeof buf, a.c_str(), "i", v); desc = a + fmt(" %d", v); }
        else if(n == "farr") { int i = (int)r.below(8); float v = r.chance(0.5) ? (float)r.range(-2, 2) / 2 : (float)r.range(-40, 40) / 8; if(r.chance(0.1)) { static const float TINY[] = {1e-39f, 3e-42f, 1.17549435e-38f, -1e-40f}; v = TINY[r.below(4)]; } a += std::to_string(i); rtosc_message(buf, sizeof buf, a.c_str(), "f", v); desc = a + fmt(" %g", v); }
        else if(n == "inner") { a += "/w"; int v = (int)r.range(-8, 8); rtosc_message(buf, sizeof buf, a.c_str(), "i", v); desc = a + fmt(" %d", v); }
        else if(n == "bank" || n == "engine") { int v = (int)r.below(4); rtosc_message(buf, sizeof buf, a.c_str(), "i", v); desc = a + fmt(" %d", v); }
        else if(n == "mode") { int v = (int)r.below(10); rtosc_message(buf, sizeof buf, a.c_str(), "i", v); desc = a + fmt(" %d", v); }
        else { int v = (int)r.range(-5, 120); rtosc_message(buf, sizeof buf, a.c_str(), "i", v); desc = a + fmt(" %d", v); }
    }
    return std::string(buf, rtosc_message_length(buf, sizeof buf));
}

struct Quiet : rtosc::RtData {
    void reply(const char *) override {}
    void broadcast(const char *) override {}
    void reply(const char *, const char *, ...) override {}
    void broadcast(const char *, const char *, ...) override {}
};

static bool leaf_enabled(const Root &r, const Cfg &c)
{
    if(c.by_sibling()) return r.mid.en != 0;
    return true;
}

// expected set of addresses with a line in the savefile
static void expect_leaf(const Leaf &l, const LeafCfg &L, const std::string &pre, std::set<std::string> &out, bool only_on = false)
{
    // placement 2: a Leaf whose own toggle is off is skipped, except for the toggle itself
    if(G->by_self() && !l.on) only_on = true;
    int p = l.preset - L.preset_lo;
    for(auto &n : L.order) {
        if(only_on && n != "on") continue;
        bool differs = false;
        if(n == "preset") differs = l.preset != L.preset_lo;
        else if(n == "a") differs = l.a != L.a_def[L.a_depends ? p : 0];
        else if(n == "b") differs = l.b != L.b_def[L.b_depends ? p : 0];
        else if(n == "c") differs = l.c != L.c_def;
        else if(n == "t") differs = l.t != L.t_def;
        else if(n == "o") differs = l.o != L.o_def;
        else if(n == "s") differs = L.s_def != l.s;
        else if(n == "arr") { for(int i = 0; i < 8; ++i) if(l.arr[i] != L.arr_def[L.arr_depends ? p : 0][i]) differs = true; }
        else if(n == "farr") { for(int i = 0; i < 8; ++i) if(l.farr[i] != L.farr_def[i]) differs = true; }
        else if(n == "on") differs = l.on != L.on_def;
        else if(n == "mode") differs = l.mode != L.mode_def;
        else if(n == "inner") { if(l.inner.w != L.w_def) out.insert(pre + "inner/w"); continue; }
        else if(n == "bank") differs = l.bank != L.bank_def;
        else if(n == "engine") differs = l.engine != L.engine_def;
        else if(n == "val") differs = l.val != L.val_def;
        if(differs) out.insert(pre + L.pname(n));
    }
}
static std::set<std::string> expected_lines(const Root &r, const Cfg &c)
{
    std::set<std::string> e;
    if(r.vol != c.vol_def) e.insert("/vol");
    if(r.mid.en != c.mid_en_def) e.insert("/mid/" + c.en_name);
    if(r.mid.x != c.mid_x_def) e.insert("/mid/x");
    if(leaf_enabled(r, c)) expect_leaf(r.mid.leaf, c.leaf, "/mid/leaf/", e);
    if(c.has_many) for(int i = 0; i < 3; ++i) expect_leaf(r.mid.many[i], c.leaf, fmt("/mid/many%d/", i), e);
    if(c.has_top) expect_leaf(r.top, c.leaf, "/top/", e);
    if(c.has_ptr && r.mid.ptr && (!c.ptr_gated || r.mid.en)) expect_leaf(*r.mid.ptr, c.leaf, "/mid/ptr/", e);
    return e;
}

// message lines of a savefile (a line that starts with '/' begins a message; continuation lines are indented)
static std::vector<std::string> message_lines(const std::string &file, std::string *header = 0)
{
    std::vector<std::string> msgs;
    size_t pos = 0;
    int line = 0;
    while(pos <= file.size()) {
        size_t e = file.find('\n', pos);
        std::string l = file.substr(pos, e == std::string::npos ? std::string::npos : e - pos);
        if(line < 2) { if(header) *header += l + "\n"; }
        else if(!l.empty() && l[0] == '/') msgs.push_back(l);
        else if(!msgs.empty()) msgs.back() += "\n" + l;
        ++line;
        if(e == std::string::npos) break;
        pos = e + 1;
    }
    return msgs;
}

static void neutralise(Root &loaded, const Root &orig, const Cfg &c)
{
    // state below a disabled sub-tree or a null pointer is not part of the savefile
    if(!leaf_enabled(orig, c)) loaded.mid.leaf = orig.mid.leaf;
    if(c.ptr_gated && !orig.mid.en) loaded.ptr_target = orig.ptr_target;
    if(c.by_self()) {
        // what lies below a Leaf whose toggle is off is not saved (the toggle itself is)
        auto fix = [](Leaf &l, const Leaf &o) { if(!o.on) { bool on = l.on; l = o; l.on = on; } };
        fix(loaded.mid.leaf, orig.mid.leaf); fix(loaded.top, orig.top); fix(loaded.ptr_target, orig.ptr_target);
        for(int i = 0; i < 3; ++i) fix(loaded.mid.many[i], orig.mid.many[i]);
    }
}

struct World { Cfg cfg; Root state; std::string hist; };
static std::string c_ptr_diff(const Root &x, const Root &y, const Cfg &c) { return c.has_ptr ? diff_leaf(x.ptr_target, y.ptr_target, c.leaf, "/mid/ptr/") : std::string(); }

static void make_world(Rng &r, World &w, int nmsg_max, bool focus = false)
{
    gen_cfg(w.cfg, r);
    build(w.cfg, r);
    reset_root(w.state, w.cfg);
    int nmsg = (int)r.range(0, nmsg_max);
    char loc[1024];
    for(int i = 0; i < nmsg; ++i) {
        std::string d;
        std::string m = gen_message(r, w.cfg, d);
        Quiet q;
        q.obj = &w.state; q.loc = loc; q.loc_size = sizeof loc;
        if(w.cfg.has_ptr && r.chance(0.02)) w.state.mid.ptr = w.state.mid.ptr ? nullptr : &w.state.ptr_target;
        Root::ports.dispatch(m.c_str(), q, true);
        w.hist += d + "; ";
    }
    if(focus) {
        // make sure whole dependency chains are in the file: for one or two objects set the toggle, the mode,
        // the preset and the dependants to non-default values (in dependency order, so the state is the intended one)
        std::vector<std::string> prefixes = {"/mid/leaf/"};
        if(w.cfg.has_many) prefixes.push_back(fmt("/mid/many%d/", (int)r.below(3)));
        if(w.cfg.has_top) prefixes.push_back("/top/");
        int np = (int)r.range(1, 2);
        for(int k = 0; k < np; ++k) {
            std::string pre = prefixes[r.below(prefixes.size())];
            const LeafCfg &L = w.cfg.leaf;
            auto send = [&](const std::string &name, const char *types, int iv, float fv) {
                if(!L.has(name.substr(0, name.find_first_of("0123456789/")))) return;
                char buf[128];
                std::string a = pre + L.pname(name);
                if(types[0] == 'i') rtosc_message(buf, sizeof buf, a.c_str(), "i", iv); else if(types[0] == 'f') rtosc_message(buf, sizeof buf, a.c_str(), "f", fv); else rtosc_message(buf, sizeof buf, a.c_str(), types);
                Quiet q; q.obj = &w.state; q.loc = loc; q.loc_size = sizeof loc;
                Root::ports.dispatch(buf, q, true);
                w.hist += a + fmt(" %s%d; ", types, iv);
            };
            if(r.chance(0.8)) send("on", L.on_def ? "F" : "T", 0, 0);
            if(w.cfg.by_self() && r.chance(0.7)) send("on", "T", 0, 0);
            // the long chain: only its two ends get a line (engine ... a), or every link does
            if(r.chance(0.7)) send("engine", "i", (L.engine_def + 1 + (int)r.below(3)) % 4, 0);
            bool ends_only = r.chance(0.4);
            if(!ends_only && r.chance(0.7)) send("bank", "i", (L.bank_def + 1 + (int)r.below(3)) % 4, 0);
            if(!ends_only && r.chance(0.8)) send("mode", "i", (L.mode_def + 1 + (int)r.below(8)) % 10, 0);
            if(ends_only) { if(r.chance(0.9)) send("a", "i", (int)r.range(200, 900), 0); count("focus.chain_ends_only"); continue; }
            if(r.chance(0.8)) send("preset", "i", L.preset_lo + 1, 0);
            if(r.chance(0.8)) send("a", "i", (int)r.range(200, 900), 0);
            if(r.chance(0.6)) send("b", "f", 0, (float)r.range(100, 300) / 4);
            if(r.chance(0.6)) send("val", "i", (int)r.range(1, 100), 0);
            if(r.chance(0.6)) send("inner/w", "i", (int)r.range(10, 90), 0);
            if(r.chance(0.6)) send(fmt("arr%d", (int)r.below(8)), "i", (int)r.range(20, 90), 0);
        }
    }
}

static std::string cfg_desc(const Cfg &c)
{
    std::string s = "leaf ports:";
    for(auto &n : c.leaf.order) s += " " + n;
    s += fmt(" | a_dep=%d b_dep=%d arr_dep=%d enable_placement=%d many=%d ptr=%d%s top=%d toggle=%s%s val=%s presets=%d..", c.leaf.a_depends, c.leaf.b_depends, c.leaf.arr_depends, c.enable_placement, c.has_many, c.has_ptr, c.ptr_gated ? "(gated)" : "", c.has_top, c.en_name.c_str(), c.en_is_int ? "(int)" : "", c.leaf.val_name.c_str(), c.leaf.preset_lo);
    return s;
}

static std::vector<std::string> tags_for(const World &w, const std::string &file)
{
    std::vector<std::string> t;
    if(file.find(" true") != std::string::npos || file.find(" false") != std::string::npos) t.push_back("has_toggle_line");
    if(w.cfg.enable_placement) t.push_back(fmt("enable_placement_%d", w.cfg.enable_placement));
    if(w.cfg.leaf.has("c")) t.push_back("char_port");
    return t;
}

static void run_save(Rng &r)
{
    World w;
    { bool untouched = r.chance(0.1); make_world(r, w, untouched ? 0 : 40, !untouched && r.chance(0.3)); }
    std::string desc = cfg_desc(w.cfg) + " :: " + (w.hist.size() > 900 ? w.hist.substr(0, 900) + "..." : w.hist);
    describe_case(desc);
    distinct(hash_str(desc));
    std::set<std::string> written;
    std::string file = rtosc::save_to_file(Root::ports, &w.state, APP, APPVER, written, {});
    count("save.files");
    sample(jstr(file.substr(0, 300)), 4);
    auto tags = tags_for(w, file);
    std::string header;
    std::vector<std::string> msgs = message_lines(file, &header);
    std::string d2 = desc + " FILE=<" + vis(file.substr(0, 700)) + ">";
    // --- minimality: a line exactly for the parameters that differ from their default
    std::set<std::string> exp = expected_lines(w.state, w.cfg), got;
    for(auto &m : msgs) got.insert(m.substr(0, m.find_first_of(" \n")));
    count("save.message_lines", msgs.size());
    if(w.hist.empty()) { count("save.untouched_apps"); if(!msgs.empty()) fail("untouched_app_saves_lines", tags, d2, fmt("%zu message lines", msgs.size()), "only the two header lines"); }
    for(auto &a : got) if(!exp.count(a)) { fail("line_for_default_value", tags, d2, a + " is in the savefile", "absent (value equals its default)"); break; }
    for(auto &a : exp) if(!got.count(a)) { fail("changed_value_not_saved", tags, d2, a + " is missing", "present (value differs from its default)"); break; }
    if(got.size() != msgs.size()) fail("duplicate_lines", tags, d2, fmt("%zu lines, %zu distinct addresses", msgs.size(), got.size()), "one line per parameter");
    // --- restore into a freshly default-initialised instance
    Root fresh;
    reset_root(fresh, w.cfg);
    if(!w.state.mid.ptr) { /* fresh keeps a valid pointer; what lies behind a null pointer was not saved */ }
    int rv = rtosc::load_from_file(file.c_str(), Root::ports, &fresh, APP, APPVER, NULL);
    count("load.files");
    if(rv != (int)msgs.size()) fail("load_return_value", tags, d2, std::to_string(rv), std::to_string(msgs.size()));
    neutralise(fresh, w.state, w.cfg);
    Root cmp_state = w.state;
    if(!w.state.mid.ptr) { cmp_state.mid.ptr = nullptr; fresh.mid.ptr = nullptr; }
    std::string diff = diff_root(cmp_state, fresh, w.cfg);
    if(!diff.empty()) fail("state_not_restored", tags, d2, diff, "loaded state equals saved state");
    else count("load.states_restored");
    if(!leaf_enabled(w.state, w.cfg)) count("save.disabled_subtree");
    if(w.cfg.has_ptr && !w.state.mid.ptr) count("save.null_pointer_subtree");
}

// corrupted files must be rejected with a negative result
static void run_reject(Rng &r)
{
    World w;
    make_world(r, w, 25);
    std::set<std::string> written;
    std::string file = rtosc::save_to_file(Root::ports, &w.state, APP, APPVER, written, {});
    std::string header;
    std::vector<std::string> msgs = message_lines(file, &header);
    std::string bad = file, how;
    switch(r.below(6)) {
        case 0: bad.replace(0, 9, "% NOT OSC"); how = "wrong first header"; break;
        case 1: { static const char *N[] = {"other-app", "zoo-ap", "zoo", "z", "zoo-app2", "zoo-apps", "Zoo-app", "zoo-apP", "oo-app", "xzoo-app"}; const char *nm = N[r.below(10)];
                  size_t p = bad.find(APP); bad.replace(p, strlen(APP), nm); how = std::string("another application's name: ") + nm; break; }
        case 2: bad = bad.substr(bad.find('\n') + 1); how = "first header line missing"; break;
        case 3: { static const char *J[] = {"/vol $1", "/mid/x [1 2", "/vol 1 2 ... x", "/top/a 'ab'", "/vol \"unterminated"}; const char *j = J[r.below(5)]; bad += std::string("\n") + j; how = std::string("unparsable line ") + j; break; }
        case 4: { static const char *J[] = {"/nonexistent 1", "/mid/nothere 2", "/vol \"a string\"", "/mid/many7/a 1"}; const char *j = J[r.below(4)]; bad += std::string("\n") + j; how = std::string("line no port accepts: ") + j; break; }
        case 5: { if(msgs.empty()) { bad += "\n/vol $"; how = "junk"; } else { size_t k = r.below(msgs.size()); size_t p = bad.find(msgs[k]); bad.replace(p, msgs[k].size(), "/vol $$$"); how = "line replaced by junk"; } break; }
    }
    std::string desc = cfg_desc(w.cfg) + " corruption=" + how + " FILE=<" + vis(bad.substr(0, 500)) + ">";
    describe_case(desc);
    distinct(hash_str(desc));
    Root fresh;
    reset_root(fresh, w.cfg);
    int rv = rtosc::load_from_file(bad.c_str(), Root::ports, &fresh, APP, APPVER, NULL);
    count("reject.files");
    count("reject." + how.substr(0, how.find(':') == std::string::npos ? how.find(' ') : how.find(':')));
    if(rv >= 0) fail("corrupt_file_accepted", {how.substr(0, 12)}, desc, std::to_string(rv), "a negative result");
}

// C13: permutations of the message lines
static void run_order(Rng &r)
{
    World w;
    make_world(r, w, r.chance(0.5) ? 6 : 40, r.chance(0.7));
    std::set<std::string> written;
    std::string file = rtosc::save_to_file(Root::ports, &w.state, APP, APPVER, written, {});
    std::string header;
    std::vector<std::string> msgs = message_lines(file, &header);
    std::string desc = cfg_desc(w.cfg) + " FILE=<" + vis(file.substr(0, 600)) + ">";
    describe_case(desc);
    distinct(hash_str(desc));
    sample(jstr(vis(file.substr(0, 250))), 4);
    if(msgs.size() < 2) { count("order.files_with_less_than_2_lines"); return; }
    count("order.files");
    auto tags = tags_for(w, file);
    auto load = [&](const std::vector<std::string> &order, Root &out) -> int {
        std::string f = header;
        for(size_t i = 0; i < order.size(); ++i) f += order[i] + (i + 1 < order.size() ? "\n" : "");
        reset_root(out, w.cfg);
        return rtosc::load_from_file(f.c_str(), Root::ports, &out, APP, APPVER, NULL);
    };
    Root base;
    int rv0 = load(msgs, base);
    // a file that does not load at all (see C12: char-typed parameters) says nothing about order independence
    if(rv0 < 0) { count("order.skipped_file_does_not_load"); return; }
    std::vector<std::string> perm = msgs;
    std::sort(perm.begin(), perm.end());
    size_t nperm = 0;
    bool exhaustive = msgs.size() <= 6;
    auto check_perm = [&]() -> bool {
        Root out;
        int rv = load(perm, out);
        ++nperm;
        count("order.permutations");
        std::string ptxt;
        for(auto &l : perm) ptxt += l.substr(0, l.find_first_of(" \n")) + " ";
        if(rv != rv0) { fail("order_changes_return_value", tags, desc + " order=" + ptxt, std::to_string(rv), std::to_string(rv0)); return false; }
        Root a = base, b = out;
        a.mid.ptr = b.mid.ptr = nullptr;
        std::string diff = diff_root(a, b, w.cfg);
        if(c_ptr_diff(base, out, w.cfg).size()) diff += c_ptr_diff(base, out, w.cfg);
        if(!diff.empty()) { fail("order_changes_state", tags, desc + " order=" + ptxt, diff, "same state as the saved order"); return false; }
        return true;
    };
    (void)check_perm;
    if(exhaustive) {
        count("order.exhaustive_files");
        do { if(!check_perm()) break; } while(std::next_permutation(perm.begin(), perm.end()));
    } else {
        for(int k = 0; k < 200; ++k) { for(size_t i = perm.size(); i > 1; --i) std::swap(perm[i - 1], perm[r.below(i)]); if(!check_perm()) break; }
        // also the reverse order
        perm = msgs; std::reverse(perm.begin(), perm.end()); check_perm();
    }
    // a file in which a depended-on port's line is absent
    for(size_t k = 0; k < msgs.size() && k < 4; ++k) {
        std::vector<std::string> sub = msgs;
        sub.erase(sub.begin() + (long)r.below(sub.size()));
        if(sub.size() < 2) break;
        Root b0, b1;
        int r0 = load(sub, b0);
        std::reverse(sub.begin(), sub.end());
        int r1 = load(sub, b1);
        count("order.subset_files");
        Root a = b0, b = b1; a.mid.ptr = b.mid.ptr = nullptr;
        std::string diff = diff_root(a, b, w.cfg) + c_ptr_diff(b0, b1, w.cfg);
        if(r0 != r1 || !diff.empty()) { fail("order_changes_state_subset", tags, desc + fmt(" (one line removed, %zu lines reversed)", sub.size()), diff + fmt(" rv %d vs %d", r1, r0), "same state"); break; }
    }
    g_evaluations += nperm;
}

int main(int argc, char **argv)
{
    parse_args(argc, argv);
    std::string mode = g_args.mode;
    return main_loop(argc, argv, 0xC12, [mode](uint64_t i, Rng &r) {
        if(mode == "order") run_order(r);
        else if(i % 5 == 4) run_reject(r);
        else run_save(r);
    });
}
