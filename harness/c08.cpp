// C08 — bundles compose and decompose losslessly, including nesting.
// Oracle: reference bundle encoder (refosc.h), recursive comparison.
#include <memory>
#include "oscgen.h"
#include <rtosc/ports.h>
#include <rtosc/subtree-serialize.h>
using namespace vh;
using gen::Elem;

struct Heap {
    char *p;
    size_t n;
    explicit Heap(size_t n_, size_t extra_zero = 0) : p((char *)malloc(n_ + extra_zero ? n_ + extra_zero : 1)), n(n_) { memset(p, 0, n_ + extra_zero ? n_ + extra_zero : 1); }
    ~Heap() { free(p); }
    Heap(const Heap &) = delete;
};

static std::string g_desc;
static char *g_arena = (char *)calloc(1, 1 << 18);
static size_t g_arena_last = 0;

// builds e with the library (bottom-up); returns exact bytes the library produced
static bool build(const Elem &e, ref::bytes &out)
{
    if(!e.is_bundle) {
        gen::ArgPack ap(e.msg);
        ref::bytes rb = e.msg.encode();
        Heap h(rb.size());
        size_t r = rtosc_amessage(h.p, h.n, e.msg.addr.c_str(), e.msg.types.c_str(), ap.data());
        if(r != rb.size()) { fail("element_message_build", {}, g_desc, std::to_string(r), std::to_string(rb.size())); return false; }
        out.assign((unsigned char *)h.p, (unsigned char *)h.p + r);
        return true;
    }
    std::vector<ref::bytes> kids(e.kids.size());
    std::vector<std::unique_ptr<Heap>> bufs;
    std::vector<const char *> ptrs;
    for(size_t i = 0; i < e.kids.size(); ++i) {
        if(!build(e.kids[i], kids[i])) return false;
        // own buffer followed by 4 zero bytes (see DESIGN section 8)
        bufs.emplace_back(new Heap(kids[i].size(), 4));
        memcpy(bufs.back()->p, kids[i].data(), kids[i].size());
        ptrs.push_back(bufs.back()->p);
    }
    ref::bytes rb = e.encode();
    // destination not 4-byte aligned (as the messages of upstream's test/message-alignment.c)
    {
        size_t shift = 1 + (hash_bytes(rb.data(), rb.size()) % 3);
        Heap hu(rb.size() + shift);
        memset(hu.p, 0xA5, hu.n);
        size_t ru = gen::call_bundle(hu.p + shift, rb.size(), e.tt, ptrs);
        count("bundle.built_unaligned");
        if(ru != rb.size()) { fail("bundle_return", {"unaligned_destination"}, g_desc, std::to_string(ru), std::to_string(rb.size())); return false; }
        if(memcmp(hu.p + shift, rb.data(), rb.size())) { fail("bundle_bytes", {"unaligned_destination"}, g_desc, hexs(hu.p + shift, rb.size() > 160 ? 160 : rb.size()), hexs(rb.data(), rb.size() > 160 ? 160 : rb.size())); return false; }
    }
    Heap h(rb.size());
    memset(h.p, 0xA5, h.n);
    size_t r = gen::call_bundle(h.p, h.n, e.tt, ptrs);
    count("bundle.built");
    count(fmt("bundle.elements_%zu", e.kids.size()));
    if(r != rb.size()) { fail("bundle_return", {}, g_desc, std::to_string(r), std::to_string(rb.size())); return false; }
    if(memcmp(h.p, rb.data(), rb.size())) { fail("bundle_bytes", {}, g_desc, hexs(h.p, rb.size() > 160 ? 160 : rb.size()), hexs(rb.data(), rb.size() > 160 ? 160 : rb.size())); return false; }
    out.assign((unsigned char *)h.p, (unsigned char *)h.p + r);
    return true;
}

// decomposes `buf` (exact `len` bytes, heap) and compares with the description
static void inspect(const Elem &e, const char *buf, size_t len, int depth)
{
    if(!e.is_bundle) {
        count("inspect.message");
        if(e.msg.addr.compare(0, 6, "#bundl") == 0) count("inspect.message_address_near_bundle_marker");
        if(rtosc_bundle_p(buf)) fail("message_taken_for_bundle", {}, g_desc, "rtosc_bundle_p true for " + vis(e.msg.addr), "false");
        return;
    }
    count("inspect.bundle");
    count(fmt("inspect.depth_%d", depth));
    if(!rtosc_bundle_p(buf)) { fail("bundle_p", {}, g_desc, "false", "true"); return; }
    uint64_t tt = rtosc_bundle_timetag(buf);
    if(tt != e.tt) fail("timetag", {}, g_desc, fmt("%016llx", (unsigned long long)tt), fmt("%016llx", (unsigned long long)e.tt));
    size_t ml = rtosc_message_length(buf, len);
    if(ml != len) fail("bundle_message_length", {depth ? "nested" : "top"}, g_desc, std::to_string(ml), std::to_string(len));
    // measured as a two-segment ring (a bundle that wraps around in a ThreadLink): splits inside the header and a few beyond
    if(depth == 0) {
        for(size_t k = 0; k <= len; k += (k < 24 ? 1 : len / 12 + 1)) {
            Heap a(k), b(len - k);
            memcpy(a.p, buf, k); memcpy(b.p, buf + k, len - k);
            ring_t ring[2] = {{a.p, k}, {b.p, len - k}};
            size_t rl = rtosc_message_ring_length(ring);
            count("inspect.ring_splits");
            if(rl != len) { fail("bundle_ring_length", {}, g_desc + fmt(" [as two segments of %zu + %zu bytes]", k, len - k), std::to_string(rl), std::to_string(len)); break; }
        }
    }
    size_t n = rtosc_bundle_elements(buf, len);
    if(n != e.kids.size()) { fail("bundle_elements", {}, g_desc, std::to_string(n), std::to_string(e.kids.size())); return; }
    // generous bounds ("somewhere in a big buffer", the library's own (size_t)-1): the zero size word ends the walk
    if(depth == 0) {
        Heap hz(len, 8);
        memcpy(hz.p, buf, len);
        static const size_t B[] = {(size_t)-1, ((size_t)-1) / 2, (size_t)2147483647 + 17, ((size_t)1 << 32) + 16, ((size_t)1 << 31), 65536};
        for(size_t b : B) {
            if(b < len) continue;
            size_t nb = rtosc_bundle_elements(hz.p, b);
            count("inspect.elements_generous_bound");
            if(nb != e.kids.size()) { fail("bundle_elements", {"generous_bound"}, g_desc + fmt(" [bound %zu]", b), std::to_string(nb), std::to_string(e.kids.size())); break; }
        }
    }
    size_t off = 16;
    for(size_t i = 0; i < e.kids.size(); ++i) {
        ref::bytes kb = e.kids[i].encode();
        const char *f = rtosc_bundle_fetch(buf, i);
        size_t sz = rtosc_bundle_size(buf, i);
        count("inspect.fetch");
        if(f != buf + off + 4) { fail("bundle_fetch_pointer", {}, g_desc, fmt("elem %zu at offset %ld", i, (long)(f - buf)), fmt("offset %zu", off + 4)); return; }
        if(sz != kb.size()) { fail("bundle_size", {e.kids[i].is_bundle ? "elem_is_bundle" : "elem_is_message"}, g_desc, fmt("elem %zu size %zu", i, sz), std::to_string(kb.size())); return; }
        if(memcmp(f, kb.data(), kb.size())) { fail("bundle_fetch_bytes", {}, g_desc, fmt("elem %zu ", i) + hexs(f, kb.size() > 96 ? 96 : kb.size()), hexs(kb.data(), kb.size() > 96 ? 96 : kb.size())); return; }
        // recurse on an exact-size heap copy of the element
        Heap h(kb.size());
        memcpy(h.p, f, kb.size());
        inspect(e.kids[i], h.p, kb.size(), depth + 1);
        if(!e.kids[i].is_bundle) {
            size_t l = rtosc_message_length(h.p, kb.size());
            if(l != kb.size()) fail("element_message_length", {}, g_desc, std::to_string(l), std::to_string(kb.size()));
        }
        off += 4 + kb.size();
    }
}

// ---------------------------------------------------------------- subtree_serialize (append_bundle)
struct SObj { int a; float b; char s[24]; int v[3]; int x, y; };
static rtosc::Ports *sub_ports, *root_ports;
static void build_ports()
{
    using rtosc::RtData;
    sub_ports = new rtosc::Ports({
        {"x::i", 0, 0, [](const char *, RtData &d) { d.reply(d.loc, "i", ((SObj *)d.obj)->x); }},
        {"y::i", 0, 0, [](const char *, RtData &d) { d.reply(d.loc, "i", ((SObj *)d.obj)->y); }},
    });
    root_ports = new rtosc::Ports({
        {"a::i", 0, 0, [](const char *, RtData &d) { d.reply(d.loc, "i", ((SObj *)d.obj)->a); }},
        {"b::f", 0, 0, [](const char *, RtData &d) { d.reply(d.loc, "f", ((SObj *)d.obj)->b); }},
        {"s::s", 0, 0, [](const char *, RtData &d) { d.reply(d.loc, "s", ((SObj *)d.obj)->s); }},
        {"hid::i", ":internal\0", 0, [](const char *, RtData &d) { d.reply(d.loc, "i", 99); }},
        {"v#3::i", 0, 0, [](const char *m, RtData &d) { const char *q = m; while(*q && !isdigit(*q)) ++q; d.reply(d.loc, "i", ((SObj *)d.obj)->v[atoi(q)]); }},
        {"sub/", 0, sub_ports, [](const char *m, RtData &d) { while(*m && *m != '/') ++m; if(*m) ++m; sub_ports->dispatch(m, d); }},
        {"quiet::i", 0, 0, [](const char *, RtData &) {}},
    });
}

static void run_subtree(Rng &r)
{
    SObj o;
    o.a = (int)r.next(); uint32_t fb = (uint32_t)r.next(); if((fb & 0x7f800000u) == 0x7f800000u) fb &= 0x3fffffffu; memcpy(&o.b, &fb, 4);
    std::string s = gen::gen_string(r); s.resize(std::min<size_t>(s.size(), 20)); for(auto &c : s) if((unsigned char)c < 0x20 || (unsigned char)c > 0x7e) c = '?';
    strcpy(o.s, s.c_str());
    for(int &x : o.v) x = (int)r.next();
    o.x = (int)r.range(-5, 5); o.y = (int)r.next();
    auto mk = [](const char *addr, char t, uint32_t u, const char *str) {
        gen::Msg m; m.addr = addr; m.types = std::string(1, t); ref::Val v; v.type = t; v.u32 = u; if(str) v.s = str; m.vals.push_back(v); return m.encode(); };
    std::vector<ref::bytes> el;
    el.push_back(mk("/a", 'i', (uint32_t)o.a, 0));
    el.push_back(mk("/b", 'f', fb, 0));
    el.push_back(mk("/s", 's', 0, o.s));
    for(int i = 0; i < 3; ++i) el.push_back(mk(fmt("/v%d", i).c_str(), 'i', (uint32_t)o.v[i], 0));
    el.push_back(mk("/sub/x", 'i', (uint32_t)o.x, 0));
    el.push_back(mk("/sub/y", 'i', (uint32_t)o.y, 0));
    ref::bytes rb = ref::bundle(0xdeadbeef0a0b0c0dULL, el);
    size_t cap = r.chance(0.4) ? rb.size() : r.chance(0.5) ? rb.size() + (size_t)r.range(1, 64) : (size_t)r.range(16, (int64_t)rb.size() - 1);
    g_desc = fmt("subtree_serialize a=%d s=\"%s\" cap=%zu need=%zu", o.a, o.s, cap, rb.size());
    describe_case(g_desc);
    distinct(hash_bytes(rb.data(), rb.size(), cap));
    Heap h(cap);
    // the save buffer as an application reuses it: zeroed, stale non-zero bytes, or a previous (longer) snapshot
    int dirt = (int)r.below(3);
    if(dirt == 0) memset(h.p, 0, cap);
    else if(dirt == 1) for(size_t i = 0; i < cap; ++i) h.p[i] = (char)(r.chance(0.5) ? 0x01 + r.below(255) : 0);
    else { SObj o2 = o; strcpy(o2.s, "a previous snapshot"); subtree_serialize(h.p, cap, &o2, root_ports); count("subtree.buffer_reused"); }
    g_desc += fmt(" buffer=%s", dirt == 0 ? "zeroed" : dirt == 1 ? "stale bytes" : "previous snapshot");
    size_t len = subtree_serialize(h.p, cap, &o, root_ports);
    count("subtree.serialized");
    if(dirt) count("subtree.dirty_buffer");
    if(cap >= rb.size()) {
        count("subtree.fits");
        if(len != rb.size()) { fail("subtree_len", {}, g_desc, std::to_string(len), std::to_string(rb.size())); return; }
        if(memcmp(h.p, rb.data(), len)) { fail("subtree_bytes", {}, g_desc, hexs(h.p, len > 200 ? 200 : len), hexs(rb.data(), len > 200 ? 200 : len)); return; }
        if(rtosc_bundle_elements(h.p, len) != el.size()) fail("subtree_elements", {}, g_desc, std::to_string(rtosc_bundle_elements(h.p, len)), std::to_string(el.size()));
        // read back with the capacity as the bound, as subtree_deserialize(buffer, buffer_size, ...) does
        size_t ml = rtosc_message_length(h.p, cap);
        if(ml != len) fail("subtree_length_under_capacity_bound", {}, g_desc, std::to_string(ml), std::to_string(len));
        size_t ne = rtosc_bundle_elements(h.p, cap);
        if(ne != el.size()) fail("subtree_elements_under_capacity_bound", {}, g_desc, std::to_string(ne), std::to_string(el.size()));
    } else {
        count("subtree.too_small");
        if(len != 0) fail("subtree_nofit_return", {}, g_desc, std::to_string(len), "0");
    }
}

int main(int argc, char **argv)
{
    build_ports();
    return main_loop(argc, argv, 0xC08, [](uint64_t i, Rng &r) {
        if(i % 8 == 7) { run_subtree(r); return; }
        int maxdepth = (int)(i % 5);   // nesting depth 0..4 (0 = bundle of plain messages)
        Elem e = gen::gen_elem(r, maxdepth + 1, true);
        if(e.kids.size() > (size_t)gen::MAX_BUNDLE_ELEMS) e.kids.resize(gen::MAX_BUNDLE_ELEMS);
        if(e.kids.size() > 8) count("cases.more_than_8_elements");
        g_desc = e.render();
        if(g_desc.size() > 1200) g_desc.resize(1200);
        describe_case(g_desc);
        sample(jstr(g_desc.substr(0, 400)));
        ref::bytes lib;
        if(!build(e, lib)) return;
        distinct(hash_bytes(lib.data(), lib.size()));
        count(fmt("cases.depth_%d", e.depth()));
        // accessors are functions of the bytes alone: one buffer is reused for bundle after bundle; the first element
        // fetched from the new bundle lies at or behind the last one fetched from its predecessor (nothing in between)
        if(!e.kids.empty() && lib.size() + 8 < (1u << 18)) {
            memcpy(g_arena, lib.data(), lib.size());
            memset(g_arena + lib.size(), 0, 8);
            std::vector<size_t> offs; size_t off = 16;
            std::vector<ref::bytes> kb;
            for(auto &k : e.kids) { kb.push_back(k.encode()); offs.push_back(off + 4); off += 4 + kb.back().size(); }
            size_t n = e.kids.size();
            int how = (int)r.below(3);
            size_t start = g_arena_last < n ? g_arena_last + (size_t)r.below(n - g_arena_last) : (size_t)r.below(n);
            count("inspect.reused_buffer");
            for(size_t k = 0; k < n; ++k) {
                size_t i = how == 0 ? (start + n - k) % n : how == 1 ? (start + k) % n : (k == 0 ? start : (size_t)r.below(n));
                const char *f = rtosc_bundle_fetch(g_arena, (unsigned)i);
                size_t sz = rtosc_bundle_size(g_arena, (unsigned)i);
                count("inspect.fetch_reused_buffer");
                if(f != g_arena + offs[i] || sz != kb[i].size() || memcmp(f, kb[i].data(), kb[i].size())) {
                    fail("bundle_fetch_history_dependent", {}, g_desc + " [same buffer as the previous bundle, elements fetched in another order]",
                         fmt("elem %zu at offset %ld size %zu", i, (long)(f - g_arena), sz), fmt("offset %zu size %zu, the element's bytes", offs[i], kb[i].size()));
                    break;
                }
            }
        }
        Heap h(lib.size());
        memcpy(h.p, lib.data(), lib.size());
        inspect(e, h.p, lib.size(), 0);
        // the same bundle 1..3 bytes behind an aligned address
        {
            size_t shift = 1 + r.below(3);
            Heap hu(lib.size() + shift);
            memcpy(hu.p + shift, lib.data(), lib.size());
            std::string keep = g_desc;
            g_desc += fmt(" [bundle placed at an aligned address + %zu]", shift);
            count("inspect.unaligned_placement");
            inspect(e, hu.p + shift, lib.size(), 0);
            g_desc = keep;
        }
        // last accessor call of the case: one element of the copy in the reused buffer
        if(!e.kids.empty() && lib.size() + 8 < (1u << 18)) { g_arena_last = (size_t)r.below(e.kids.size()); (void)rtosc_bundle_fetch(g_arena, (unsigned)g_arena_last); }
    });
}
