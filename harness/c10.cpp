// C10 — pretty-printing is reversible: scanning printed text returns the values.
// Oracle: print -> strlen == return -> syntax check count -> scan consumes all ->
// scanned values (expanded by the harness) are bit-identical to the originals.
#include "avgen.h"
#include <rtosc/pretty-format.h>
#include <rtosc/arg-val-cmp.h>
using namespace vh;
using av::av_t;

struct Case {
    std::vector<av_t> args;
    av::Store st;
    rtosc_print_options opt;
    std::string address;
    std::vector<std::string> tags;
};

// returns true when an arithmetic run was produced; `from`: start the run at this value
static bool gen_run(Rng &r, Case &c, std::vector<av_t> &out, char forced = 0, const av_t *from = 0, bool unit = false)
{
    static const char TYPES[] = "ihcfdsSbmrtTFNI";
    char t = from ? from->type : forced ? forced : TYPES[r.below(15)];
    int n = unit ? (int)r.range(5, 8) : from ? (int)r.range(2, 9) : r.chance(0.55) ? 1 : (int)r.range(2, 9);
    bool arith = n >= 2 && strchr("cih", t) && (from || unit || r.chance(0.5));
    if(arith) {
        av_t s = av::mk(t), d = av::mk(t);
        if(t == 'c') { s.val.i = (int32_t)r.range(0x21, 0x60); d.val.i = r.chance(0.5) ? 1 : (int32_t)r.range(1, 3); if(r.chance(0.4)) { d.val.i = -d.val.i; s.val.i = (int32_t)r.range(0x50, 0x7e); } }
        else if(t == 'i') {
            s.val.i = (int32_t)r.range(-50, 50); d.val.i = (int32_t)r.range(-4, 4); if(!d.val.i) d.val.i = r.chance(0.5) ? 1 : -1;
            if(r.chance(0.08)) { s.val.i = r.chance(0.5) ? 0 : (int32_t)r.range(-1000, 1000); d.val.i = (int32_t)(r.chance(0.5) ? 1 : -1) * (int32_t)r.range(65536, 400000000); c.tags.push_back("large_step"); count("gen.large_step"); }
        } else {
            s.val.h = r.chance(0.3) ? 4294967290ll : r.range(-50, 50); d.val.h = r.range(-3, 3); if(!d.val.h) d.val.h = 1;
            // steps that do not fit 32 bits
            if(r.chance(0.15)) { static const int64_t D[] = {2147483648ll, 3000000000ll, 4294967296ll, 4294967297ll, 8589934593ll, 1099511627776ll, 4294967295ll, 8589934591ll, 4294967297ll}; d.val.h = D[r.below(9)] * (r.chance(0.5) ? 1 : -1); if(r.chance(0.5)) s.val.h = 0; c.tags.push_back("large_step"); count("gen.large_step_64bit"); }
        }
        // progressions whose span (last - first, last - second) sits on the edge of the type's range without any step wrapping
        if(!from && !unit && t != 'c' && n >= 5 && r.chance(0.12)) {
            double full = t == 'i' ? 4294967296.0 : 18446744073709551616.0;
            static const double FR[] = {0.5, 0.5, 0.51, 0.49, 0.75, 0.99, 1.0, 0.34, 0.26};
            double span = full * FR[r.below(9)];
            double step = span / (n - 1);
            bool down = r.chance(0.5);
            if(t == 'i') { d.val.i = (int32_t)(down ? -step : step) + (int32_t)r.range(-2, 2); s.val.i = r.chance(0.5) ? (down ? INT_MAX : INT_MIN) + (int32_t)(down ? -r.range(0, 3) : r.range(0, 3)) : (int32_t)((down ? 1 : -1) * span / 2); }
            else { d.val.h = (int64_t)(down ? -step : step) + r.range(-2, 2); s.val.h = r.chance(0.5) ? (down ? LLONG_MAX - r.range(0, 3) : LLONG_MIN + r.range(0, 3)) : (int64_t)((down ? 1 : -1) * (span / 2)); }
            // keep only the prefix that does not wrap
            int keep = 0;
            for(int i = 0; i < n; ++i) {
                if(t == 'i') { int64_t v = (int64_t)s.val.i + (int64_t)i * d.val.i; if(v > INT_MAX || v < INT_MIN) break; }
                else { __int128 v = (__int128)s.val.h + (__int128)i * d.val.h; if(v > LLONG_MAX || v < LLONG_MIN) break; }
                ++keep;
            }
            n = keep;
            c.tags.push_back("span_at_type_range"); count("gen.span_at_type_range");
        }
        if(from) s = *from;
        if(unit) { if(t == 'h') d.val.h = r.chance(0.5) ? 1 : -1; else d.val.i = r.chance(0.5) ? 1 : -1; if(t == 'c') { if(d.val.i > 0 && s.val.i > 0x70) s.val.i = 0x41; if(d.val.i < 0 && s.val.i < 0x30) s.val.i = 0x6a; } }
        for(int i = 0; i < n; ++i) { av_t v; av::step_value(s, d, i, v); if(t == 'c' && (v.val.i < 0x20 || v.val.i > 0x7e)) break; out.push_back(v); }
        return true;
    } else {
        av_t v = av::gen_scalar(r, t, c.st);
        for(int i = 0; i < n; ++i) out.push_back(v);
    }
    return false;
}

static void gen_case(Rng &r, Case &c)
{
    int groups = (int)r.range(0, 5);
    for(int g = 0; g < groups && c.args.size() < 12; ++g) {
        if(r.chance(0.18)) {
            // homogeneous array of 0..8 elements
            std::vector<av_t> el;
            char t = "ihcfdsSbmrtT"[r.below(12)];
            if(!r.chance(0.12)) {
                int runs = (int)r.range(1, 2);
                for(int k = 0; k < runs; ++k) {
                    if(t == 'T') { int n = (int)r.range(1, 4); for(int i = 0; i < n; ++i) el.push_back(av::mk(r.chance(0.5) ? 'T' : 'F')), el.back().val.T = el.back().type == 'T'; }
                    else gen_run(r, c, el, t);
                }
                if(el.size() > 8) el.resize(8);
            }
            av_t h = av::mk('a');
            rtosc_av_arr_type_set(&h, el.empty() ? ' ' : el.back().type);
            rtosc_av_arr_len_set(&h, (int32_t)el.size());
            c.args.push_back(h);
            c.args.insert(c.args.end(), el.begin(), el.end());
            c.tags.push_back(el.empty() ? "empty_array" : "array");
            // a +-1 progression of the array's type directly behind the array
            if(!el.empty() && strchr("cih", t) && r.chance(0.35)) {
                // sometimes the array itself begins with a run long enough to be compressed
                if(r.chance(0.4) && el.size() >= 6) { av_t one = av::mk(t); if(t == 'h') one.val.h = 1; else one.val.i = 1; for(size_t q = 1; q < 5; ++q) av::step_value(el[0], one, (int)q, el[q]); if(t != 'c' || el[4].val.i < 0x7f) { size_t at = c.args.size() - el.size(); for(size_t q = 0; q < el.size(); ++q) c.args[at + q] = el[q]; c.tags.push_back("array_with_inner_run_then_run"); count("gen.array_with_inner_run_then_run"); } } std::vector<av_t> run; av_t lastel = c.args.back(); gen_run(r, c, run, t, r.chance(0.5) ? &lastel : 0, true); c.args.insert(c.args.end(), run.begin(), run.end()); c.tags.push_back("unit_progression_after_array"); count("gen.unit_progression_after_array"); }
        } else {
            std::vector<av_t> run;
            bool arith = gen_run(r, c, run);
            // a second progression that starts at (or right after) the last value of the first
            if(arith && run.size() >= 2 && r.chance(0.35)) {
                av_t from = r.chance(0.25) ? run.front() : run.back();   // ... or at its first value again
                if(r.chance(0.3)) { av_t one = av::mk(from.type); if(from.type == 'h') one.val.h = 1; else one.val.i = 1; av_t nx; av::step_value(from, one, 1, nx); if(from.type != 'c' || nx.val.i < 0x7f) from = nx; }
                size_t before = run.size();
                gen_run(r, c, run, 0, &from, r.chance(0.4));
                if(run.size() > before) { c.tags.push_back("adjacent_progressions"); count("gen.adjacent_progressions"); if(g == 0) { c.tags.push_back("adjacent_progressions_at_start"); count("gen.adjacent_progressions_at_start"); } }
            }
            size_t room = 12 > c.args.size() ? 12 - c.args.size() : 0;
            if(run.size() > room + 12) run.resize(room + 12);
            c.args.insert(c.args.end(), run.begin(), run.end());
        }
    }
    c.opt.lossless = true;
    c.opt.floating_point_precision = (int)r.range(0, 9);
    c.opt.sep = " ";
    c.opt.linelength = r.chance(0.3) ? 80 : (int)r.range(10, 120);
    c.opt.compress_ranges = r.chance(0.6);
    c.address = r.chance(0.5) ? "/noteOn" : "/a/b_c/d12";
    // input predicates (used to classify failures)
    bool seen_tfrac = false;
    for(size_t i = 0; i < c.args.size(); ++i) {
        const av_t &a = c.args[i];
        if(a.type == 't' && a.val.t != 1 && (a.val.t & 0xffffffffull)) seen_tfrac = true;
        if(a.type == 'S') {
            static const char *KW[] = {"true", "false", "nil", "inf", "now", "immediately", "MIDI", "BLOB"};
            for(auto k : KW) if(!strcmp(a.val.s, k)) c.tags.push_back("keyword_symbol");
        }
    }
    if(seen_tfrac) c.tags.push_back("time_fraction");
}

static std::string opt_str(const rtosc_print_options &o)
{ return fmt("{prec=%d line=%d compress=%d}", o.floating_point_precision, o.linelength, o.compress_ranges); }

static void roundtrip(Case &c, bool as_message)
{
    std::string desc = (as_message ? "msg " + c.address + " " : "args ") + av::render(c.args.data(), c.args.size()) + opt_str(c.opt);
    describe_case(desc, c.tags);
    static std::vector<char> buf(1 << 16), strbuf(1 << 16);
    memset(buf.data(), 0, 4096);
    buf[0] = ' ';
    char *out = buf.data() + 1;
    size_t bs = buf.size() - 1;
    size_t wrt = as_message ? rtosc_print_message(c.address.c_str(), c.args.data(), c.args.size(), out, bs, &c.opt, 0)
                            : rtosc_print_arg_vals(c.args.data(), c.args.size(), out, bs, &c.opt, 0);
    count(as_message ? "printed.messages" : "printed.lists");
    std::string text(out);
    std::string d2 = desc + " text=<" + vis(text.substr(0, 400)) + ">";
    if(strlen(out) != wrt) { fail("print_length", c.tags, d2, fmt("returned %zu, strlen %zu", wrt, strlen(out)), "equal"); return; }
    if(text.find('\n') != std::string::npos) count("printed.with_linebreak");
    if(text.find("...") != std::string::npos || (text.find('x') != std::string::npos && c.opt.compress_ranges)) count("printed.with_range_syntax");
    // exact-size heap copy of the text for checker and scanner
    char *t = (char *)malloc(text.size() + 1);
    memcpy(t, text.c_str(), text.size() + 1);
    int cnt = as_message ? rtosc_count_printed_arg_vals_of_msg(t) : rtosc_count_printed_arg_vals(t);
    if(cnt < 0 || (cnt == 0 && !c.args.empty())) { fail("checker_rejects_printed_text", c.tags, d2, std::to_string(cnt), "a positive value count"); free(t); return; }
    std::vector<av_t> sc((size_t)cnt + 1);
    memset(sc.data(), 0, sc.size() * sizeof(av_t));
    sc[cnt].type = '!';     // sentinel behind the announced count
    char addr[256];
    size_t rd = as_message ? rtosc_scan_message(t, addr, sizeof addr, sc.data(), (size_t)cnt, strbuf.data(), strbuf.size())
                           : rtosc_scan_arg_vals(t, sc.data(), (size_t)cnt, strbuf.data(), strbuf.size());
    count("scanned");
    if(sc[cnt].type != '!') { fail("scanner_wrote_more_than_counted", c.tags, d2, "value written behind the counted ones", fmt("%d values", cnt)); free(t); return; }
    if(rd != text.size()) { fail("scanner_consumed", c.tags, d2, fmt("%zu of %zu bytes", rd, text.size()), "the whole text"); free(t); return; }
    if(as_message && c.address != addr) { fail("address_roundtrip", c.tags, d2, addr, c.address); free(t); return; }
    std::vector<av::XV> a, b;
    if(!av::expand(c.args.data(), c.args.size(), a)) { free(t); return; }
    if(!av::expand(sc.data(), (size_t)cnt, b)) { fail("scanned_malformed", c.tags, d2, av::render(sc.data(), cnt), "well-formed arg-val list"); free(t); return; }
    std::string why;
    if(!av::same_xv(a, b, &why)) { fail("values_roundtrip", c.tags, d2, why + " scanned=" + av::render(sc.data(), cnt), "the original values"); free(t); return; }
    // the library's own equality must agree (C16 checks it independently)
    if(!rtosc_arg_vals_eq(c.args.data(), sc.data(), c.args.size(), (size_t)cnt, NULL)) fail("library_eq_disagrees", c.tags, d2, "rtosc_arg_vals_eq = 0", "1");
    count("roundtrips_ok");
    free(t);
}

int main(int argc, char **argv)
{
    return main_loop(argc, argv, 0xC10, [](uint64_t i, Rng &r) {
        Case c;
        gen_case(r, c);
        distinct(hash_str(av::render(c.args.data(), c.args.size()) + opt_str(c.opt)));
        sample(jstr(av::render(c.args.data(), c.args.size()) + opt_str(c.opt)));
        roundtrip(c, i % 4 == 3);
    });
}
