// C04 — dispatch delivers a message to exactly the port it addresses.
// Oracle: reference dispatcher over the generated tree description (treegen.h),
// compared with the library without and with a location buffer.
#include "treegen.h"
using namespace vh;
using tg::Tree;
using tg::Table;
using tg::PortDesc;

static std::string osc_message(const std::string &addr, const std::string &types)
{
    std::string m = addr;
    m.append(4 - m.size() % 4, '\0');
    m += "," + types;
    m.append(4 - m.size() % 4, '\0');
    // argument payload: zeros (4 bytes per i/f, one padded empty string per s)
    for(char t : types) if(t == 'i' || t == 'f' || t == 's' || t == 'c') m.append(4, '\0');
    return m;
}

struct Obs { int id; size_t moff; void *obj; std::string loc; bool port_ok; bool msg_ok; };

static std::string render_obs(const std::vector<Obs> &o, bool with_loc)
{
    std::string s;
    for(auto &e : o) s += fmt("(port %d @%zu obj=%p%s%s%s) ", e.id, e.moff, e.obj, with_loc ? (" loc=" + e.loc).c_str() : "", e.port_ok ? "" : " WRONG d.port", e.msg_ok ? "" : " WRONG d.message");
    return s.empty() ? "(nothing)" : s;
}

static char g_loc[512];   // reused across dispatches, like an application would

static void run_case(Rng &r)
{
    tg::GenOpts o;
    o.max_ports = 24;
    o.max_depth = 3;
    o.p_sub_spec = 0.12;
    o.p_overlap_sub = 0.3;
    Tree t;
    tg::gen_tree(t, r, o);
    std::string tdesc = tg::render_table(t.root);
    describe_case(tdesc);
    distinct(hash_str(tdesc));
    sample(jstr(tdesc.substr(0, 300)));
    for(auto &tb : t.tables) {
        int kind = tb->lib->verif_lookup_kind();
        count(kind ? "tables.hashed" : (tb->has_hash_enum() ? "tables.linear_because_enum" : "tables.linear_hash_failed"));
        if(tb->built_as != "direct") count("tables." + tb->built_as);
        if(tb->has_default) count("tables.with_default");
    }
    // ---- derive addresses
    std::vector<std::string> addrs;
    std::vector<tg::Walked> w;
    tg::ref_walk(t.root, "", w);
    // exact addresses (bounded sample when the expansion is large)
    size_t stride = w.size() > 60 ? w.size() / 60 + 1 : 1;
    for(size_t i = 0; i < w.size(); i += stride) addrs.push_back(w[i].addr);
    // index variants and per-port prefixes
    std::function<void(const Table *, const std::string &)> rec = [&](const Table *tb, const std::string &pre) {
        for(auto &p : tb->ports) {
            std::string nm = p->name;
            size_t h = nm.find('#');
            std::vector<std::string> heads;
            if(h == std::string::npos) heads.push_back(nm);
            else {
                size_t j = h + 1; while(j < nm.size() && isdigit((unsigned char)nm[j])) ++j;
                long N = atol(nm.substr(h + 1, j - h - 1).c_str());
                for(std::string idx : {std::string("0"), std::to_string(N - 1), std::to_string(N), std::to_string(N + 1), "0" + std::to_string(N - 1), std::string("007"), std::string("")})
                    heads.push_back(nm.substr(0, h) + idx + nm.substr(j));
            }
            for(auto &hd : heads) {
                if(addrs.size() < 400) addrs.push_back(pre + hd);
                if(p->sub && (int)r.below(3) == 0) rec(p->sub, pre + hd);
                else if(p->sub && addrs.size() < 400) { addrs.push_back(pre + hd + "zz"); }
            }
            if(p->sub && heads.size() == 1) rec(p->sub, pre + heads[0]);
        }
    };
    rec(t.root, "");
    // mutations: one character appended / removed / changed, missing or extra '/'
    size_t base_n = addrs.size();
    for(size_t i = 0; i < base_n && addrs.size() < 700; ++i) {
        std::string a = addrs[i];
        if(a.empty()) continue;
        int k = (int)r.below(6);
        size_t o2 = (size_t)r.below(a.size());
        switch(k) {
            case 0: a += "abc/0"[r.below(5)]; break;
            case 1: a.erase(o2, 1); break;
            case 2: a[o2] = "abc0/"[r.below(5)]; break;
            case 3: { size_t s = a.find('/'); if(s != std::string::npos) a.erase(s, 1); else a += "/"; break; }
            case 4: a.insert(o2, 1, '/'); break;
            case 5: a.insert(o2, 1, "abc"[r.below(3)]); break;
        }
        addrs.push_back(a);
    }
    static const char *TYPES[] = {"", "i", "f", "s", "ii", "T", "F", "if", "c"};
    // ---- dispatch every address
    for(auto &a : addrs) {
        std::string types = TYPES[r.below(9)];
        // prefer an admitted type string half of the time
        std::vector<tg::Expect> probe;
        tg::ref_dispatch(t.root, a, 0, "", tg::root_token(), false, probe);
        (void)probe;
        std::vector<tg::Expect> exp;
        tg::ref_dispatch(t.root, a, 0, types, tg::root_token(), false, exp);
        if(exp.empty() && r.chance(0.6)) {
            // find a type string some addressed leaf admits
            for(const char *ty : TYPES) { std::vector<tg::Expect> e2; tg::ref_dispatch(t.root, a, 0, ty, tg::root_token(), false, e2); if(!e2.empty()) { types = ty; exp = e2; break; } }
        }
        std::string full = "/" + a;
        std::string msg = osc_message(full, types);
        // exact-size heap copy
        std::unique_ptr<char[]> mb(new char[msg.size()]);
        memcpy(mb.get(), msg.data(), msg.size());
        const char *m = mb.get();
        std::string desc = "table=" + tdesc.substr(0, 600) + " address=" + full + " types=," + types;
        size_t must = 0, opt = 0;
        for(auto &e : exp) (e.optional ? opt : must)++;
        count(must ? "dispatch.expect_delivery" : "dispatch.expect_nothing");
        if(must > 1) count("dispatch.expect_multiple");
        std::vector<Obs> obs[2];
        int matches[2] = {0, 0};
        int defaults[2] = {0, 0};
        for(int withloc = 0; withloc < 2; ++withloc) {
            rtosc::RtData d;
            d.obj = tg::root_token();
            if(withloc) { d.loc = g_loc; d.loc_size = sizeof g_loc; }
            t.log.clear();
            t.root->lib->dispatch(m, d, true);
            count(withloc ? "dispatch.with_loc" : "dispatch.without_loc");
            matches[withloc] = d.matches;
            for(auto &le : t.log) {
                if(le.id < 0) { ++defaults[withloc]; continue; }
                PortDesc *pd = t.all_ports[le.id];
                Obs ob;
                ob.id = le.id;
                ob.moff = (size_t)(le.m - (m + 1));
                ob.obj = le.obj;
                ob.loc = le.loc;
                ob.port_ok = le.port == &(*pd->owner->lib)[(unsigned)pd->index_in_table];
                ob.msg_ok = le.message == m;
                obs[withloc].push_back(ob);
            }
            if(withloc) {
                if(strcmp(g_loc, "/") != 0) fail("loc_not_restored", {}, desc, vis(g_loc, strnlen(g_loc, 64)), "/");
                if(d.obj != tg::root_token()) fail("obj_not_restored", {}, desc, fmt("%p", d.obj), "root object");
            }
            // compare with the reference
            std::vector<bool> used(exp.size(), false);
            const char *who = withloc ? "with_loc" : "without_loc";
            std::vector<std::string> tags;
            bool hashed_somewhere = false;
            for(auto &tb : t.tables) if(tb->lib->verif_lookup_kind()) hashed_somewhere = true;
            tags.push_back(hashed_somewhere ? "some_table_hashed" : "all_tables_linear");
            for(auto &ob : obs[withloc]) {
                bool found = false;
                for(size_t k = 0; k < exp.size(); ++k)
                    if(!used[k] && exp[k].id == ob.id && exp[k].moff == ob.moff && exp[k].obj == ob.obj) { used[k] = true; found = true; break; }
                if(!found) { fail(std::string("unexpected_callback_") + who, tags, desc, render_obs(obs[withloc], withloc), fmt("%zu required + %zu optional deliveries", must, opt)); break; }
                if(!ob.port_ok) fail(std::string("wrong_port_pointer_") + who, tags, desc, render_obs(obs[withloc], withloc), "d.port == the invoked port");
                if(!ob.msg_ok) fail(std::string("wrong_message_pointer_") + who, tags, desc, "d.message differs", "pointer to the full message");
                if(withloc && ob.loc != full) fail("wrong_loc_in_callback", tags, desc, ob.loc, full);
            }
            for(size_t k = 0; k < exp.size(); ++k)
                if(!used[k] && !exp[k].optional) { fail(std::string("missing_callback_") + who, tags, desc, render_obs(obs[withloc], withloc), fmt("port %d (%s) must be invoked", exp[k].id, exp[k].pd->full.c_str())); break; }
            if(withloc) {
                int leafs = (int)obs[1].size() + defaults[1];
                if(d.matches != leafs) fail("matches_count", tags, desc, std::to_string(d.matches), std::to_string(leafs));
            }
        }
        // strategy independence: the set of port callbacks is the same with and without location buffer
        auto key = [](const Obs &x) { return std::make_tuple(x.id, x.moff, x.obj); };
        std::vector<std::tuple<int, size_t, void *>> k0, k1;
        for(auto &x : obs[0]) k0.push_back(key(x));
        for(auto &x : obs[1]) k1.push_back(key(x));
        std::sort(k0.begin(), k0.end()); std::sort(k1.begin(), k1.end());
        if(k0 != k1) fail("strategy_dependence", {}, desc, "with loc: " + render_obs(obs[1], true), "without loc: " + render_obs(obs[0], false));
        if(defaults[1]) count("dispatch.default_handler_invoked");
        if(!obs[1].empty() && obs[1][0].moff > 0) count("dispatch.nested_delivery");
    }
    g_evaluations += addrs.size() - 1;
}

int main(int argc, char **argv)
{
    return main_loop(argc, argv, 0xC04, [](uint64_t, Rng &r) { run_case(r); });
}
