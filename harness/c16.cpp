// C16 — argument-value comparison is a coherent order, blind to range compression.
// Oracle: the order laws themselves, a reference comparator for same-type
// values, and the harness's own run finder / expansion for compressions.
#include "vh.h"
#include <limits.h>
#include <math.h>
#include <rtosc/rtosc.h>
#include <rtosc/arg-val.h>
#include <rtosc/arg-ext.h>
#include <rtosc/arg-val-cmp.h>
#include <rtosc/arg-val-itr.h>
using namespace vh;

typedef rtosc_arg_val_t av_t;

// ---------------------------------------------------------------- value pools
static const char *STRS[] = {"", "a", "ab", "b", "aB"};
static uint8_t B0[] = {0}, B12[] = {1, 2}, B120[] = {1, 2, 0}, B13[] = {1, 3}, B1200[] = {1, 2, 0, 0}, B121[] = {1, 2, 1};
struct BlobC { int len; uint8_t *d; };
static BlobC BLOBS[] = {{0, B0}, {2, B12}, {3, B120}, {2, B13}, {1, B0}, {4, B1200}, {3, B121}};

static av_t mk(char t) { av_t a; memset(&a, 0, sizeof a); a.type = t; return a; }
static av_t gen_scalar(Rng &r, char t)
{
    av_t a = mk(t);
    switch(t) {
        case 'i': { static const int32_t P[] = {-2, 0, 1, 5, INT_MAX, INT_MIN}; a.val.i = P[r.below(6)]; break; }
        case 'c': { static const int32_t P[] = {'a', 'b', 'A', '0'}; a.val.i = P[r.below(4)]; break; }
        case 'r': { static const int32_t P[] = {0, 0x01020304, (int32_t)0xff000000, 0x7f000000}; a.val.i = P[r.below(4)]; break; }
        case 'h': { static const int64_t P[] = {-5000000000ll, 0, 1, 4294967296ll, 3000000000ll, 2147483648ll, -1}; a.val.h = P[r.below(7)]; break; }
        case 'f': { static const float P[] = {-1.5f, -0.0f, 0.0f, 0.5f, 2.0f, INFINITY, -INFINITY}; a.val.f = P[r.below(7)]; break; }
        case 'd': { static const double P[] = {-INFINITY, -0.25, 0.0, -0.0, 1.0, 1e300}; a.val.d = P[r.below(6)]; break; }
        case 't': { static const uint64_t P[] = {1, 0, 2, 0x8000000000000000ull, ~0ull, 0x100000000ull}; a.val.t = P[r.below(6)]; break; }
        case 'm': { static const uint8_t P[][4] = {{0, 0, 0, 0}, {0, 0, 0, 1}, {0x90, 1, 2, 3}, {0xff, 0, 0, 0}}; memcpy(a.val.m, P[r.below(4)], 4); break; }
        case 's': case 'S': a.val.s = STRS[r.below(5)]; break;
        case 'b': { BlobC &b = BLOBS[r.below(7)]; a.val.b.len = b.len; a.val.b.data = b.d; break; }
        case 'T': a.val.T = 1; break;
        default: break;
    }
    return a;
}
static const char SCALARS[] = "icrhfdtmsSbTFNI";

// ---------------------------------------------------------------- structured lists
struct Node { bool is_arr = false; av_t v; char arr_type = ' '; std::vector<av_t> elems; };
typedef std::vector<Node> List;

static av_t step_val(const av_t &start, const av_t &delta, int i)
{
    av_t r = start;
    switch(start.type) {
        case 'c': case 'i': r.val.i = start.val.i + i * delta.val.i; break;
        case 'h': r.val.h = start.val.h + (int64_t)i * delta.val.h; break;
        case 'f': r.val.f = start.val.f + (float)i * delta.val.f; break;
        case 'd': r.val.d = start.val.d + (double)i * delta.val.d; break;
    }
    return r;
}

static void gen_run(Rng &r, std::vector<av_t> &out, char forced_type = 0)
{
    char t = forced_type ? forced_type : SCALARS[r.below(15)];
    int n = r.chance(0.5) ? 1 : (int)r.range(2, 4);
    bool arith = n >= 2 && strchr("cihfd", t) && r.chance(0.5);
    if(arith) {
        av_t s = mk(t), d = mk(t);
        switch(t) {
            case 'c': s.val.i = (int)r.range('a', 'f'); d.val.i = (int)r.range(1, 2); break;
            case 'i': s.val.i = (int)r.range(-3, 3); d.val.i = (int)r.range(-2, 2); if(!d.val.i) d.val.i = 1; break;
            case 'h': s.val.h = r.chance(0.5) ? 4294967290ll : r.range(-3, 3); d.val.h = r.chance(0.3) ? 4294967296ll : (r.range(1, 3)); break;
            case 'f': s.val.f = (float)r.range(-2, 2) * 0.5f; d.val.f = (float)r.range(1, 3) * 0.25f;
                      // steps a float does not hold exactly: element i is start + i*delta, not the (i-1)th element + delta
                      if(r.chance(0.4)) { static const float D[] = {0.1f, 0.2f, 0.3f, 0.7f, 1.1f, 0.05f}; d.val.f = D[r.below(6)]; if(r.chance(0.5)) s.val.f = (float)r.range(1, 9); volatile float v1 = s.val.f + d.val.f; d.val.f = v1 - s.val.f; n = (int)r.range(3, 9); count("runs.inexact_float_step"); } break;
            case 'd': s.val.d = (double)r.range(-2, 2) * 0.5; d.val.d = (double)r.range(1, 3) * 0.25;
                      if(r.chance(0.4)) { static const double D[] = {0.1, 0.2, 0.3, 0.7, 1.1, 0.05}; d.val.d = D[r.below(6)]; if(r.chance(0.5)) s.val.d = (double)r.range(1, 9); volatile double v1 = s.val.d + d.val.d; d.val.d = v1 - s.val.d; n = (int)r.range(3, 9); count("runs.inexact_float_step"); } break;
        }
        for(int i = 0; i < n; ++i) out.push_back(step_val(s, d, i));
    } else {
        av_t v = gen_scalar(r, t);
        for(int i = 0; i < n; ++i) out.push_back(v);
    }
}

static List gen_list(Rng &r)
{
    List L;
    int groups = (int)r.range(0, 3);
    for(int g = 0; g < groups; ++g) {
        if(r.chance(0.2)) {
            Node a; a.is_arr = true;
            if(r.chance(0.25)) { a.arr_type = r.chance(0.5) ? ' ' : "ifTFsb"[r.below(6)]; }   // empty array
            else {
                char t = "ihfsbTcdS"[r.below(9)];
                int runs = (int)r.range(1, 2);
                for(int k = 0; k < runs; ++k) {
                    if(t == 'T') { int n = (int)r.range(1, 3); for(int i = 0; i < n; ++i) a.elems.push_back(gen_scalar(r, r.chance(0.5) ? 'T' : 'F')); }
                    else gen_run(r, a.elems, t);
                }
                if(a.elems.size() > 4) a.elems.resize(4);
                a.arr_type = a.elems.back().type;
            }
            L.push_back(a);
        } else {
            std::vector<av_t> run;
            gen_run(r, run);
            for(auto &v : run) { Node n; n.v = v; L.push_back(n); }
        }
    }
    while(L.size() > 6) L.pop_back();
    return L;
}

// bitwise identity of scalars (the harness's own notion, not the library's)
static bool same_scalar(const av_t &a, const av_t &b)
{
    if(a.type != b.type) return false;
    switch(a.type) {
        case 'i': case 'c': case 'r': return a.val.i == b.val.i;
        case 'h': return a.val.h == b.val.h;
        case 't': return a.val.t == b.val.t;
        case 'f': return !memcmp(&a.val.f, &b.val.f, 4);
        case 'd': return !memcmp(&a.val.d, &b.val.d, 8);
        case 'm': return !memcmp(a.val.m, b.val.m, 4);
        case 's': case 'S': return !strcmp(a.val.s, b.val.s);
        case 'b': return a.val.b.len == b.val.b.len && !memcmp(a.val.b.data, b.val.b.data, a.val.b.len);
        default: return true;
    }
}

// ---------------------------------------------------------------- flattening with compression choices
struct Run { size_t begin, len; bool arith; av_t delta; };
static std::vector<Run> find_runs(const std::vector<av_t> &v)
{
    std::vector<Run> out;
    size_t i = 0;
    while(i < v.size()) {
        size_t j = i + 1;
        // constant run
        while(j < v.size() && same_scalar(v[j], v[i])) ++j;
        if(j - i >= 2) { out.push_back(Run{i, j - i, false, mk(v[i].type)}); i = j; continue; }
        // arithmetic run of c i h f d
        if(i + 1 < v.size() && v[i].type == v[i + 1].type && strchr("cihfd", v[i].type)) {
            av_t d = mk(v[i].type);
            switch(v[i].type) {
                case 'c': case 'i': { int64_t dd = (int64_t)v[i + 1].val.i - v[i].val.i; if(dd > 1000000 || dd < -1000000) { ++i; continue; } d.val.i = (int32_t)dd; break; }
                case 'h': d.val.h = v[i + 1].val.h - v[i].val.h; break;
                case 'f': d.val.f = v[i + 1].val.f - v[i].val.f; break;
                case 'd': d.val.d = v[i + 1].val.d - v[i].val.d; break;
            }
            // an infinite start or delta is not an arithmetic run (0*inf is NaN)
            if((v[i].type == 'f' && (!isfinite(v[i].val.f) || !isfinite(d.val.f))) || (v[i].type == 'd' && (!isfinite(v[i].val.d) || !isfinite(d.val.d)))) { ++i; continue; }
            j = i + 1;
            // the expansion start + 0*delta must reproduce the first value bit for bit (-0.0 + 0*d is +0.0)
            if(!same_scalar(v[i], step_val(v[i], d, 0))) { ++i; continue; }
            while(j < v.size() && v[j].type == v[i].type && same_scalar(v[j], step_val(v[i], d, (int)(j - i)))) ++j;
            if(j - i >= 2) { out.push_back(Run{i, j - i, true, d}); i = j; continue; }
        }
        ++i;
    }
    return out;
}
// mask bit k: compress run k
static void flatten_scalars(const std::vector<av_t> &v, const std::vector<Run> &runs, unsigned mask, std::vector<av_t> &out)
{
    size_t i = 0, k = 0;
    while(i < v.size()) {
        while(k < runs.size() && runs[k].begin < i) ++k;
        if(k < runs.size() && runs[k].begin == i && (mask >> k & 1)) {
            av_t h = mk('-');
            rtosc_av_rep_num_set(&h, (int32_t)runs[k].len);
            rtosc_av_rep_has_delta_set(&h, runs[k].arith);
            out.push_back(h);
            if(runs[k].arith) out.push_back(runs[k].delta);
            out.push_back(v[i]);
            i += runs[k].len;
        } else out.push_back(v[i++]);
    }
}
struct Flat { std::vector<av_t> av; bool compressed = false; bool has_array = false; };
static std::vector<Flat> all_compressions(const List &L, Rng &r)
{
    // top level scalars are grouped into maximal stretches between arrays
    std::vector<Flat> res;
    // count runs to know the mask width
    std::vector<std::vector<av_t>> stretches; std::vector<int> order; // order: -1-k = stretch k, >=0 = array index
    std::vector<av_t> cur;
    for(size_t i = 0; i < L.size(); ++i) {
        if(L[i].is_arr) { if(!cur.empty()) { stretches.push_back(cur); order.push_back(-(int)stretches.size()); cur.clear(); } order.push_back((int)i); }
        else cur.push_back(L[i].v);
    }
    if(!cur.empty()) { stretches.push_back(cur); order.push_back(-(int)stretches.size()); }
    std::vector<std::vector<Run>> sruns, aruns;
    size_t nruns = 0;
    for(auto &s : stretches) { sruns.push_back(find_runs(s)); nruns += sruns.back().size(); }
    std::vector<size_t> arr_idx;
    for(size_t i = 0; i < L.size(); ++i) if(L[i].is_arr) { arr_idx.push_back(i); aruns.push_back(find_runs(L[i].elems)); nruns += aruns.back().size(); }
    unsigned total = nruns > 5 ? 32 : (1u << nruns);
    for(unsigned m = 0; m < total; ++m) {
        unsigned mask = nruns > 5 ? (m == 0 ? 0 : (unsigned)r.next()) : m;
        Flat f;
        unsigned bit = 0;
        size_t ai = 0;
        for(int o : order) {
            if(o < 0) {
                size_t s = (size_t)(-o - 1);
                flatten_scalars(stretches[s], sruns[s], mask >> bit, f.av);
                bit += sruns[s].size();
            } else {
                const Node &n = L[o];
                std::vector<av_t> inner;
                flatten_scalars(n.elems, aruns[ai], mask >> bit, inner);
                bit += aruns[ai].size();
                ++ai;
                av_t h = mk('a');
                rtosc_av_arr_type_set(&h, n.arr_type);
                rtosc_av_arr_len_set(&h, (int32_t)inner.size());
                f.av.push_back(h);
                f.av.insert(f.av.end(), inner.begin(), inner.end());
                f.has_array = true;
            }
        }
        f.compressed = (mask & ((1u << (nruns > 31 ? 31 : nruns)) - 1)) != 0;
        res.push_back(f);
    }
    return res;
}

static std::string render_flat(const std::vector<av_t> &v)
{
    std::string s;
    for(auto &a : v) {
        switch(a.type) {
            case 'i': case 'c': case 'r': s += fmt("%c:%d ", a.type, a.val.i); break;
            case 'h': s += fmt("h:%lld ", (long long)a.val.h); break;
            case 't': s += fmt("t:%llx ", (unsigned long long)a.val.t); break;
            case 'f': s += fmt("f:%g ", a.val.f); break;
            case 'd': s += fmt("d:%g ", a.val.d); break;
            case 'm': s += fmt("m:%02x%02x%02x%02x ", a.val.m[0], a.val.m[1], a.val.m[2], a.val.m[3]); break;
            case 's': case 'S': s += fmt("%c:\"%s\" ", a.type, a.val.s); break;
            case 'b': s += "b:" + hexs(a.val.b.data, a.val.b.len) + " "; break;
            case 'a': s += fmt("a[type '%c' len %d] ", rtosc_av_arr_type(&a), rtosc_av_arr_len(&a)); break;
            case '-': s += fmt("range[n=%d%s] ", rtosc_av_rep_num(&a), rtosc_av_rep_has_delta(&a) ? " +delta" : ""); break;
            default: s += std::string(1, a.type) + " ";
        }
    }
    return s.empty() ? "(empty)" : s;
}

static int sgn(int x) { return (x > 0) - (x < 0); }
static int lcmp(const std::vector<av_t> &a, const std::vector<av_t> &b) { count("calls.cmp"); return rtosc_arg_vals_cmp(a.data(), b.data(), a.size(), b.size(), NULL); }
static int leq(const std::vector<av_t> &a, const std::vector<av_t> &b) { count("calls.eq"); return rtosc_arg_vals_eq(a.data(), b.data(), a.size(), b.size(), NULL); }

// reference order for two scalars of the same type; returns 2 when the statement fixes no order
static int ref_single(const av_t &a, const av_t &b)
{
    switch(a.type) {
        case 'i': case 'c': return (a.val.i > b.val.i) - (a.val.i < b.val.i);
        case 'h': return (a.val.h > b.val.h) - (a.val.h < b.val.h);
        case 'f': return (a.val.f > b.val.f) - (a.val.f < b.val.f);
        case 'd': return (a.val.d > b.val.d) - (a.val.d < b.val.d);
        case 't': if(a.val.t == 1 || b.val.t == 1) return a.val.t == b.val.t ? 0 : a.val.t == 1 ? -1 : 1; return (a.val.t > b.val.t) - (a.val.t < b.val.t);
        case 's': case 'S': if(!a.val.s || !b.val.s) return 2;    // an unset string: the statement fixes no position for it
                            return sgn(strcmp(a.val.s, b.val.s));
        case 'b': { int m = a.val.b.len < b.val.b.len ? a.val.b.len : b.val.b.len; int c = memcmp(a.val.b.data, b.val.b.data, m); if(c) return sgn(c); return (a.val.b.len > b.val.b.len) - (a.val.b.len < b.val.b.len); }
        default: return 2;
    }
}

static std::vector<std::string> pair_tags(const std::vector<av_t> &a, const std::vector<av_t> &b)
{
    std::vector<std::string> t;
    auto has_blob = [](const std::vector<av_t> &v) { for(auto &x : v) if(x.type == 'b') return true; return false; };
    auto has_empty_bool_arr = [](const std::vector<av_t> &v) { for(auto &x : v) if(x.type == 'a' && rtosc_av_arr_len(&x) == 0 && (rtosc_av_arr_type(&x) == 'T' || rtosc_av_arr_type(&x) == 'F')) return true; return false; };
    if(has_blob(a) && has_blob(b)) t.push_back("blobs");
    if(has_empty_bool_arr(a) || has_empty_bool_arr(b)) t.push_back("empty_bool_array");
    return t;
}

static void run_case(Rng &r)
{
    // a pool of lists built from shared small value pools (ties and prefixes are frequent)
    int NL = 7;
    std::vector<List> lists;
    for(int i = 0; i < NL; ++i) lists.push_back(gen_list(r));
    // derived lists: prefix of another, one element changed
    if(!lists[0].empty()) { List p = lists[0]; p.pop_back(); lists.push_back(p); }
    { List q = lists[1]; if(!q.empty() && !q.back().is_arr) { q.back().v = gen_scalar(r, q.back().v.type); } lists.push_back(q); }
    NL = (int)lists.size();
    std::vector<std::vector<Flat>> comp;
    for(auto &L : lists) comp.push_back(all_compressions(L, r));
    std::string desc;
    for(int i = 0; i < NL; ++i) desc += fmt("L%d={", i) + render_flat(comp[i][0].av) + "} ";
    describe_case(desc);
    distinct(hash_str(desc));
    sample(jstr(desc.substr(0, 300)));
    // --- per list: reflexivity, compression invariance
    for(int i = 0; i < NL; ++i) {
        const std::vector<av_t> &plain = comp[i][0].av;
        for(size_t c = 0; c < comp[i].size(); ++c) {
            const std::vector<av_t> &v = comp[i][c].av;
            std::string d = "list={" + render_flat(plain) + "} variant={" + render_flat(v) + "}";
            if(lcmp(v, v) != 0) fail("reflexive_cmp", pair_tags(v, v), d, std::to_string(lcmp(v, v)), "0");
            if(!leq(v, v)) fail("reflexive_eq", pair_tags(v, v), d, "0", "1");
            if(c == 0) continue;
            if(comp[i][c].compressed) count("compressed_variants");
            if(!leq(plain, v) || !leq(v, plain)) fail("compression_changes_equality", {}, d, "eq(list, compressed) = 0", "1");
            if(lcmp(plain, v) != 0 || lcmp(v, plain) != 0) fail("compression_changes_order", {}, d, fmt("cmp = %d / %d", lcmp(plain, v), lcmp(v, plain)), "0");
            // iteration of the compressed list yields the plain list (top level)
            {
                rtosc_arg_val_itr it; rtosc_arg_val_itr_init(&it, v.data());
                rtosc_arg_val_itr ip; rtosc_arg_val_itr_init(&ip, plain.data());
                size_t guard = 0;
                bool ok = true;
                while(it.i < v.size() && ip.i < plain.size() && guard++ < 100) {
                    // a fresh scratch slot for every element (the caller owes the iterator nothing between calls)
                    av_t b1, b2;
                    memset(&b1, 0xA5, sizeof b1); memset(&b2, 0x5A, sizeof b2);
                    const av_t *x = rtosc_arg_val_itr_get(&it, &b1), *y = rtosc_arg_val_itr_get(&ip, &b2);
                    count("iterated_values");
                    if(x->type != y->type || (x->type != 'a' && !same_scalar(*x, *y))) { ok = false; break; }
                    rtosc_arg_val_itr_next(&it); rtosc_arg_val_itr_next(&ip);
                }
                if(!ok || (it.i < v.size()) != (ip.i < plain.size())) fail("compression_changes_iteration", {}, d, "iteration differs", "same sequence of values");
            }
            if(!comp[i][c].has_array) {
                char b1[1024], b2[1024];
                size_t l1 = rtosc_avmessage(b1, sizeof b1, "/x", plain.size(), plain.data());
                size_t l2 = rtosc_avmessage(b2, sizeof b2, "/x", v.size(), v.data());
                count("avmessages");
                if(l1 != l2 || memcmp(b1, b2, l1)) fail("compression_changes_message", {}, d, fmt("len %zu ", l2) + hexs(b2, l2 > 80 ? 80 : l2), fmt("len %zu ", l1) + hexs(b1, l1 > 80 ? 80 : l1));
            }
        }
    }
    // --- pairs
    std::vector<std::vector<int>> S(NL, std::vector<int>(NL, 0));
    for(int i = 0; i < NL; ++i) for(int j = 0; j < NL; ++j) {
        const std::vector<av_t> &a = comp[i][0].av, &b = comp[j][0].av;
        int c = lcmp(a, b), c2 = lcmp(b, a), e = leq(a, b);
        S[i][j] = sgn(c);
        count("pairs");
        if(sgn(c) == 0) count("pairs.tied");
        std::string d = "a={" + render_flat(a) + "} b={" + render_flat(b) + "}";
        auto tags = pair_tags(a, b);
        if(sgn(c) != -sgn(c2)) fail("antisymmetry", tags, d, fmt("cmp(a,b)=%d cmp(b,a)=%d", c, c2), "opposite signs");
        if((c == 0) != (e != 0)) fail("cmp_eq_agree", tags, d, fmt("cmp=%d eq=%d", c, e), "cmp==0 exactly when eq");
        // compressions of either side change nothing
        for(size_t ci = 0; ci < comp[i].size(); ci += (comp[i].size() > 4 ? 3 : 1))
            for(size_t cj = 0; cj < comp[j].size(); cj += (comp[j].size() > 4 ? 3 : 1)) {
                if(ci == 0 && cj == 0) continue;
                int cc = lcmp(comp[i][ci].av, comp[j][cj].av), ee = leq(comp[i][ci].av, comp[j][cj].av);
                count("pairs.compressed_variants");
                if(sgn(cc) != sgn(c) || (ee != 0) != (e != 0))
                    fail("compression_changes_pair", tags, d + " a'={" + render_flat(comp[i][ci].av) + "} b'={" + render_flat(comp[j][cj].av) + "}", fmt("cmp=%d eq=%d", cc, ee), fmt("cmp sign %d eq=%d", sgn(c), e));
            }
        // single same-type scalars: documented order
        if(a.size() == 1 && b.size() == 1 && a[0].type == b[0].type) {
            int rs = ref_single(a[0], b[0]);
            if(rs != 2) { count("pairs.reference_order"); if(sgn(c) != rs) fail("documented_order", tags, d, std::to_string(c), fmt("sign %d", rs)); }
        }
    }
    // --- triples
    for(int i = 0; i < NL; ++i) for(int j = 0; j < NL; ++j) for(int k = 0; k < NL; ++k) {
        count("triples");
        if(S[i][j] <= 0 && S[j][k] <= 0 && (S[i][j] < 0 || S[j][k] < 0) && S[i][k] >= 0) {
            fail("transitivity", pair_tags(comp[i][0].av, comp[k][0].av), "a={" + render_flat(comp[i][0].av) + "} b={" + render_flat(comp[j][0].av) + "} c={" + render_flat(comp[k][0].av) + "}", fmt("a<=b (%d), b<=c (%d) but cmp(a,c)=%d", S[i][j], S[j][k], S[i][k]), "a < c");
        }
        if(S[i][j] == 0 && S[j][k] == 0 && S[i][k] != 0) fail("transitivity_of_ties", {}, "a={" + render_flat(comp[i][0].av) + "} b={" + render_flat(comp[j][0].av) + "} c={" + render_flat(comp[k][0].av) + "}", fmt("cmp(a,c)=%d", S[i][k]), "0");
    }
}

// dedicated pool of single scalars, all pairs per type (documented order)
static void run_singles(Rng &r)
{
    char t = "ihfdtsSbc"[r.below(9)];
    std::vector<av_t> pool;
    for(int i = 0; i < 8; ++i) pool.push_back(gen_scalar(r, t));
    // an unset string (rtosc_arg_val_null) next to the empty string: whatever their order, cmp and eq have to agree
    if((t == 's' || t == 'S') && r.chance(0.5)) { av_t u = mk(t); u.val.s = NULL; pool.push_back(u); av_t e = mk(t); e.val.s = ""; pool.push_back(e); count("singles.unset_string"); }
    std::string desc = std::string("singles of type ") + t;
    describe_case(desc);
    for(auto &a : pool) for(auto &b : pool) {
        std::vector<av_t> va{a}, vb{b};
        int c = lcmp(va, vb), e = leq(va, vb), rs = ref_single(a, b);
        count("pairs.reference_order");
        std::string d = "a={" + render_flat(va) + "} b={" + render_flat(vb) + "}";
        if(rs != 2 && sgn(c) != rs) fail("documented_order", pair_tags(va, vb), d, std::to_string(c), fmt("sign %d", rs));
        if((c == 0) != (e != 0)) fail("cmp_eq_agree", pair_tags(va, vb), d, fmt("cmp=%d eq=%d", c, e), "cmp==0 exactly when eq");
        if(sgn(c) != -sgn(lcmp(vb, va))) fail("antisymmetry", pair_tags(va, vb), d, fmt("cmp(a,b)=%d cmp(b,a)=%d", c, lcmp(vb, va)), "opposite signs");
    }
    // with a tolerance option: whatever the tolerance, "cmp returns 0 exactly when eq reports equal", and the order is antisymmetric
    if(t == 'f' || t == 'd') {
        static const double TOL[] = {0.1, 0.3, 0.01, 0.5, 0.25, 1e-3, 0.7, 2.0, 0.0};
        rtosc_cmp_options opt; opt.float_tolerance = TOL[r.below(9)];
        std::vector<av_t> p2;
        // values exactly one tolerance apart, as the type represents it, and one ulp to either side of that
        for(int i = 0; i < 6; ++i) {
            av_t a = mk(t), b = mk(t), c = mk(t), e = mk(t);
            double base = (double)r.range(-4, 4) * (r.chance(0.5) ? 0.1 : 0.25);
            if(t == 'f') { a.val.f = (float)base; b.val.f = a.val.f + (float)opt.float_tolerance; c.val.f = nextafterf(b.val.f, INFINITY); e.val.f = nextafterf(b.val.f, -INFINITY); }
            else { a.val.d = base; b.val.d = a.val.d + opt.float_tolerance; c.val.d = nextafter(b.val.d, INFINITY); e.val.d = nextafter(b.val.d, -INFINITY); }
            p2.push_back(a); p2.push_back(b); p2.push_back(c); p2.push_back(e);
        }
        for(auto &a : p2) for(auto &b : p2) {
            int c = rtosc_arg_vals_cmp(&a, &b, 1, 1, &opt), c2 = rtosc_arg_vals_cmp(&b, &a, 1, 1, &opt), e = rtosc_arg_vals_eq(&a, &b, 1, 1, &opt);
            count("pairs.with_tolerance");
            std::vector<av_t> va{a}, vb{b};
            std::string d = fmt("tolerance %g: a={", opt.float_tolerance) + render_flat(va) + "} b={" + render_flat(vb) + "}";
            if((c == 0) != (e != 0)) { fail("cmp_eq_agree", {"with_tolerance"}, d, fmt("cmp=%d eq=%d", c, e), "cmp==0 exactly when eq"); break; }
            if(sgn(c) != -sgn(c2)) { fail("antisymmetry", {"with_tolerance"}, d, fmt("cmp(a,b)=%d cmp(b,a)=%d", c, c2), "opposite signs"); break; }
        }
    }
    distinct(hash_str(desc, r.next() & 0xff));
}

int main(int argc, char **argv)
{
    return main_loop(argc, argv, 0xC16, [](uint64_t i, Rng &r) { if(i % 5 == 4) run_singles(r); else run_case(r); });
}
