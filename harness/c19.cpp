// C19 — automation output stays in range, MIDI-learn requests are served in order.
// Oracle: reference learn queue / binding map stepped with every operation,
// output constraints (address, type, range, monotonicity, linearity at default
// gain/offset) on every message passed to the backend.
#include "vh.h"
#include <math.h>
#include <rtosc/automations.h>
#include <rtosc/ports.h>
#include <rtosc/port-sugar.h>
using namespace vh;

struct PInfo { const char *path; char type; double mn, mx; bool log; double logmin; bool bindable; };
static const PInfo PARAMS[] = {
    {"/ival", 'i', 0, 127, false, 0, true},
    {"/neg", 'i', -64, 63, false, 0, true},
    {"/wide", 'i', -1000, 1000, false, 0, true},
    {"/f", 'f', -1, 1, false, 0, true},
    {"/fpos", 'f', 0.5, 8.25, false, 0, true},
    {"/freq", 'f', 20, 20000, true, 20, true},
    {"/time", 'f', 0, 100, true, 0.01, true},
    {"/tog", 'T', 0, 1, false, 0, true},
    {"/sub/depth", 'i', 0, 16, false, 0, true},
    {"/nolearn", 'i', 0, 10, false, 0, false},
    {"/hidden", 'i', 0, 10, false, 0, false},
    {"/nobounds", 'i', 0, 0, false, 0, false},
    {"/missing", 'i', 0, 0, false, 0, false},
    // full paths of 124 and 127 characters: the longest the automation's 128-byte path field holds
    {"/a_deeply_nested_application_object_with_a_long_name_0123456789/another_level_of_the_tree_with_a_descriptive_name_abcdefgh/i", 'i', 0, 127, false, 0, true},
    {"/a_deeply_nested_application_object_with_a_long_name_0123456789/another_level_of_the_tree_with_a_descriptive_name_abcdefgh/tttt", 'T', 0, 1, false, 0, true},
};
static const int NPARAMS = 15;
static void nop(const char *, rtosc::RtData &) {}
static const rtosc::Ports sub_ports = {
    {"depth::i", rMap(min, 0) rMap(max, 16), 0, nop},
};
static const rtosc::Ports long_leaf_ports = {
    {"i::i", rMap(min, 0) rMap(max, 127), 0, nop},
    {"tttt::T:F", rProp(parameter), 0, nop},
};
static const rtosc::Ports long_mid_ports = {
    {"another_level_of_the_tree_with_a_descriptive_name_abcdefgh/", 0, &long_leaf_ports, nop},
};
static const rtosc::Ports ports = {
    {"a_deeply_nested_application_object_with_a_long_name_0123456789/", 0, &long_mid_ports, nop},
    {"ival::i", rMap(min, 0) rMap(max, 127), 0, nop},
    {"neg::i", rMap(min, -64) rMap(max, 63), 0, nop},
    {"wide::i", rMap(min, -1000) rMap(max, 1000), 0, nop},
    {"f::f", rMap(min, -1) rMap(max, 1), 0, nop},
    {"fpos::f", rLinear(0.5, 8.25), 0, nop},
    {"freq::f", rLog(20, 20000), 0, nop},
    {"time::f", rLogWithLogmin(0, 100, 0.01), 0, nop},
    {"tog::T:F", rProp(parameter), 0, nop},
    {"sub/", 0, &sub_ports, nop},
    {"nolearn::i", rMap(min, 0) rMap(max, 10) ":no learn\0", 0, nop},
    {"hidden::i", rMap(min, 0) rMap(max, 10) rProp(internal), 0, nop},
    {"nobounds::i", rProp(parameter), 0, nop},
};

struct MSub { bool used = false; int pi = -1; double gain = 100, offset = 0; uint64_t epoch = 0; std::vector<std::pair<double, double>> seen; };
struct MSlot { bool used = false; int cc = -1, nrpn = -1; std::vector<MSub> subs; };
struct Model {
    std::vector<MSlot> slots;
    std::vector<int> queue;       // learn FIFO of slot ids
    int parhi = -1, parlo = -1, valhi = -1, vallo = -1;
    int pos_of(int s) const { for(size_t i = 0; i < queue.size(); ++i) if(queue[i] == s) return (int)i + 1; return -1; }
};

struct Emitted { std::string addr; char type; double val; };
static std::vector<Emitted> g_out;

static std::string g_hist;
static bool g_failed;
static void bad(const char *chk, const std::string &obs, const std::string &exp, std::vector<std::string> tags = {})
{
    if(g_failed) return;
    g_failed = true;
    fail(chk, tags, g_hist, obs, exp);
}

// expected messages of setSlot(slot, x) + checks on what was emitted
static void check_set(Model &m, int slot, double x, size_t from, const char *why)
{
    MSlot &s = m.slots[slot];
    size_t k = from;
    for(size_t j = 0; j < s.subs.size(); ++j) {
        MSub &su = s.subs[j];
        if(!su.used) continue;
        const PInfo &p = PARAMS[su.pi];
        if(k >= g_out.size()) { bad("missing_message", fmt("%zu messages after %s", g_out.size() - from, why), fmt("one message for slot %d sub %zu (%s)", slot, j, p.path)); return; }
        Emitted &e = g_out[k++];
        count("out.messages");
        if(e.addr != p.path) { bad("wrong_address", e.addr, p.path); return; }
        if(p.type == 'T') { if(e.type != 'T' && e.type != 'F') { bad("wrong_type", std::string(1, e.type), "T or F"); return; } }
        else if(e.type != p.type) { bad("wrong_type", std::string(1, e.type), std::string(1, p.type)); return; }
        double lo = p.log ? p.logmin : p.mn, hi = p.mx;
        double tol = p.log ? 2e-5 * hi : 1e-6 * (fabs(hi - lo) + 1);
        if(p.type != 'T' && (e.val < lo - (p.log ? 2e-5 * lo : tol) || e.val > hi + tol)) { bad("out_of_range", fmt("%s = %.9g for slot value %.6g", p.path, e.val, x), fmt("[%g, %g]", lo, hi)); return; }
        if(p.type == 'i' && e.val != floor(e.val)) { bad("not_integer", fmt("%.9g", e.val), "integer"); return; }
        // monotone for positive gain
        if(su.gain > 0) {
            for(auto &pr : su.seen) {
                double slack = p.log ? 1e-6 * fabs(pr.second) : 0;
                if(pr.first < x && pr.second > e.val + slack) { bad("not_monotone", fmt("%s: f(%.9g)=%.9g > f(%.9g)=%.9g (gain %g offset %g)", p.path, pr.first, pr.second, x, e.val, su.gain, su.offset), "non-decreasing in the slot value"); return; }
                if(pr.first > x && pr.second < e.val - slack) { bad("not_monotone", fmt("%s: f(%.9g)=%.9g < f(%.9g)=%.9g (gain %g offset %g)", p.path, pr.first, pr.second, x, e.val, su.gain, su.offset), "non-decreasing in the slot value"); return; }
            }
            if(su.seen.size() < 64) su.seen.push_back({x, e.val});
            count("out.monotone_checked");
        }
        // linear at default gain and offset
        if(su.gain == 100 && su.offset == 0) {
            double xc = x < 0 ? 0 : x > 1 ? 1 : x;
            count("out.linearity_checked");
            if(p.type == 'T') {
                // the midpoint is left undecided
                if(fabs(x - 0.5) > 1e-6) { char want = x > 0.5 ? 'T' : 'F'; if(e.type != want) { bad("toggle_value", fmt("%c for slot value %.6g", e.type, x), std::string(1, want)); return; } }
            } else if(p.log) {
                double ex = exp(log(lo) + xc * (log(hi) - log(lo)));
                if(fabs(e.val - ex) > 2e-5 * ex) { bad("not_linear_log", fmt("%s = %.9g for slot value %.6g", p.path, e.val, x), fmt("%.9g (log scale)", ex)); return; }
            } else {
                double ex = lo + xc * (hi - lo);
                if(p.type == 'f') { if(fabs(e.val - ex) > 1e-5 * (fabs(hi - lo) + 1)) { bad("not_linear", fmt("%s = %.9g for slot value %.6g", p.path, e.val, x), fmt("%.9g", ex)); return; } }
                else {
                    double r0 = round(ex);
                    bool near_boundary = fabs(fabs(ex - floor(ex)) - 0.5) < 1e-4;
                    if(e.val != r0 && !(near_boundary && fabs(e.val - ex) <= 0.5 + 1e-4)) { bad("not_linear", fmt("%s = %.9g for slot value %.6g", p.path, e.val, x), fmt("%.0f (= round(%.6f))", r0, ex), {p.mn < 0 ? "int_range_below_zero" : "int_range_nonneg"}); return; }
                }
            }
        }
    }
    if(k != g_out.size()) bad("extra_message", fmt("%zu messages after %s, e.g. to %s", g_out.size() - from, why, g_out[k].addr.c_str()), fmt("%zu", k - from));
}

static void run_case(Rng &r)
{
    int nslots = (int)r.range(2, 6), per = (int)r.range(1, 3);
    // heap allocated (exact size): the NRPN state of a fresh manager is whatever the allocator left there
    std::unique_ptr<rtosc::AutomationMgr> mgr(new rtosc::AutomationMgr(nslots, per, 4));
    mgr->set_ports(ports);
    g_out.clear();
    mgr->backend = [](const char *msg) {
        Emitted e;
        e.addr = msg;
        const char *ts = rtosc_argument_string(msg);
        e.type = ts[0] ? ts[0] : '?';
        e.val = e.type == 'i' ? rtosc_argument(msg, 0).i : e.type == 'f' ? rtosc_argument(msg, 0).f : e.type == 'T' ? 1 : 0;
        g_out.push_back(e);
    };
    Model m;
    m.slots.resize(nslots);
    for(auto &s : m.slots) s.subs.resize(per);
    g_hist = fmt("AutomationMgr(%d,%d):", nslots, per);
    g_failed = false;
    int ops = (int)r.range(1, 40);
    // usually a full NRPN parameter number first; otherwise data-entry messages must be ignored until one was selected
    bool preselect = r.chance(0.7);
    if(!preselect) count("nrpn.history_without_initial_select");
    // (NRPN numbers often fall into the range of the plain controller ids in use: 0..5 and 128..133)
    bool low_nrpn = r.chance(0.4);
    if(low_nrpn) count("nrpn.number_in_cc_id_range");
    if(preselect) for(int cc : {99, 98}) { int v = low_nrpn ? (cc == 99 ? (int)r.below(2) : (int)r.range(1, 5)) : (int)r.range(0, 127); mgr->handleMidi(0, cc, v); g_hist += fmt(" midi(0,%d,%d)", cc, v); if(cc == 99) { m.parhi = v; } else m.parlo = v; m.valhi = m.vallo = -1; }
    g_out.clear();
    for(int o = 0; o < ops && !g_failed; ++o) {
        size_t from = g_out.size();
        int k = (int)r.below(20);
        if(k < 5) {
            int slot = (int)r.below(nslots), pi = (int)r.below(r.chance(0.85) ? 9 : 13);
            if(r.chance(0.08)) { pi = 13 + (int)r.below(2); count("ops.createBinding_long_path"); }
            bool learn = r.chance(0.6);
            g_hist += fmt(" create(%d,%s,%s)", slot, PARAMS[pi].path, learn ? "learn" : "-");
            mgr->createBinding(slot, PARAMS[pi].path, learn);
            count("ops.createBinding");
            MSlot &s = m.slots[slot];
            if(PARAMS[pi].bindable) {
                int ind = -1;
                for(int j = 0; j < per; ++j) if(!s.subs[j].used) { ind = j; break; }
                if(ind >= 0) {
                    s.used = true;
                    MSub &su = s.subs[ind];
                    su = MSub(); su.used = true; su.pi = pi;
                    if(learn && m.pos_of(slot) == -1 && s.cc == -1) { m.queue.push_back(slot); count("ops.learn_requests"); }
                }
            }
        } else if(k < 7) {
            int slot = (int)r.below(nslots);
            g_hist += fmt(" clearSlot(%d)", slot);
            bool waiting_others = false;
            for(int q : m.queue) if(q != slot) waiting_others = true;
            if(m.pos_of(slot) == -1 && waiting_others) count("ops.clear_nonlearning_while_others_wait");
            mgr->clearSlot(slot);
            count("ops.clearSlot");
            MSlot &s = m.slots[slot];
            for(size_t i = 0; i < m.queue.size(); ++i) if(m.queue[i] == slot) { m.queue.erase(m.queue.begin() + i); break; }
            s = MSlot(); s.subs.resize(per);
        } else if(k < 8) {
            int slot = (int)r.below(nslots), sub = (int)r.below(per);
            g_hist += fmt(" clearSub(%d,%d)", slot, sub);
            mgr->clearSlotSub(slot, sub);
            m.slots[slot].subs[sub] = MSub();
        } else if(k < 10) {
            int slot = (int)r.below(nslots), sub = (int)r.below(per);
            static const double G[] = {100, 50, 200, 10, -100, 150}, O[] = {0, -50, 50, 25, 0, 0};
            double g = G[r.below(6)], of = O[r.below(6)];
            g_hist += fmt(" gain/offset(%d,%d,%g,%g)", slot, sub, g, of);
            mgr->setSlotSubGain(slot, sub, (float)g);
            mgr->setSlotSubOffset(slot, sub, (float)of);
            mgr->updateMapping(slot, sub);
            MSub &su = m.slots[slot].subs[sub];
            su.gain = g; su.offset = of; su.seen.clear();
            count("ops.gain_offset");
        } else if(k < 14) {
            int slot = (int)r.below(nslots);
            static const double X[] = {0, 1, 0.5, 0.25, 0.75, -0.5, 1.5, 1.0 / 127, 126.0 / 127, 0.1, 0.9, 0.3333333};
            double x = r.chance(0.7) ? X[r.below(12)] : r.unit();
            // far outside [0,1]: the output still has to stay inside the parameter's range
            if(r.chance(0.06)) { static const double FAR[] = {1e8, -1e8, 3e9, -3e9, 1e30, -1e30, 16777216.0, 2147483648.0, 1000.0, -1000.0}; x = FAR[r.below(10)]; count("ops.setSlot_far_outside"); }
            g_hist += fmt(" setSlot(%d,%.7g)", slot, x);
            mgr->setSlot(slot, (float)x);
            count("ops.setSlot");
            check_set(m, slot, (double)(float)x, from, "setSlot");
            if(!g_failed && fabs(mgr->getSlot(slot) - (float)x) > 0) bad("getSlot", fmt("%g", mgr->getSlot(slot)), fmt("%g", x));
        } else if(k < 19) {
            int ch = (int)r.below(2), cc, val = (int)r.range(0, 127);
            do { cc = r.chance(0.7) ? (int)r.range(1, 5) : (int)r.range(0, 119); } while(cc == 6 || cc == 38 || cc == 98 || cc == 99);
            int id = ch * 128 + cc;
            g_hist += fmt(" midi(%d,%d,%d)", ch, cc, val);
            mgr->handleMidi(ch, cc, val);
            count("ops.handleMidi_cc");
            std::vector<int> bound;
            for(int i = 0; i < nslots; ++i) if(m.slots[i].cc == id) bound.push_back(i);
            if(!bound.empty()) {
                count("midi.bound_cc");
                size_t f = from;
                for(int i : bound) { size_t nmsg = 0; for(auto &su : m.slots[i].subs) nmsg += su.used; size_t upto = f + nmsg; std::vector<Emitted> save(g_out.begin() + std::min(upto, g_out.size()), g_out.end()); g_out.resize(std::min(upto, g_out.size())); check_set(m, i, (double)(float)(val / 127.0), f, "bound controller"); g_out.insert(g_out.end(), save.begin(), save.end()); f = upto; }
                if(!g_failed && f != g_out.size()) bad("extra_message", fmt("%zu messages for a controller bound to %zu slot(s)", g_out.size() - from, bound.size()), fmt("%zu", f - from));
            } else if(!m.queue.empty()) {
                int sl = m.queue.front();
                m.queue.erase(m.queue.begin());
                m.slots[sl].cc = id;
                count("midi.learned_cc");
                check_set(m, sl, (double)(float)(val / 127.0), from, "learn");
            } else {
                count("midi.unbound_ignored");
                if(g_out.size() != from) bad("extra_message", fmt("unassigned controller %d produced %zu messages (%s)", id, g_out.size() - from, g_out[from].addr.c_str()), "none");
            }
        } else if(r.chance(0.12)) {
            // (re)select half of the NRPN parameter number: clears the value halves, emits nothing
            int cc = r.chance(0.5) ? 99 : 98, v = low_nrpn ? (cc == 99 ? (int)r.below(2) : (int)r.range(1, 5)) : (int)r.range(0, 127);
            g_hist += fmt(" midi(0,%d,%d)", cc, v);
            mgr->handleMidi(0, cc, v);
            if(cc == 99) m.parhi = v; else m.parlo = v;
            m.valhi = m.vallo = -1;
            count("nrpn.select_mid_history");
            if(g_out.size() != from) bad("extra_message", "NRPN parameter select produced a parameter message", "none", {"nrpn_incomplete"});
        } else {
            // an NRPN value (data entry hi, lo) for the parameter number selected so far
            int vh_ = (int)r.range(0, 127), vl = (int)r.range(0, 127);
            g_hist += fmt(" nrpn_value(%d,%d)", vh_, vl);
            int id = (m.parhi << 7) + m.parlo;
            for(int step = 0; step < 2 && !g_failed; ++step) {
                size_t f2 = g_out.size();
                mgr->handleMidi(0, step ? 38 : 6, step ? vl : vh_);
                if(m.parhi < 0 || m.parlo < 0) {
                    // no parameter number selected: data entry is not an NRPN, nothing to map or learn
                    count("nrpn.data_entry_without_select");
                    if(g_out.size() != f2) bad("extra_message", "data entry without a selected NRPN parameter produced a parameter message", "none", {"nrpn_incomplete"});
                    continue;
                }
                if(step == 0) {
                    m.valhi = vh_;
                    bool complete = m.vallo >= 0;
                    if(!complete) { if(g_out.size() != f2) bad("extra_message", "incomplete NRPN produced a parameter message", "none", {"nrpn_incomplete"}); continue; }
                } else m.vallo = vl;
                int value = (m.valhi << 7) + m.vallo;
                std::vector<int> bound;
                for(int i = 0; i < nslots; ++i) if(m.slots[i].nrpn == id) bound.push_back(i);
                count("ops.handleMidi_nrpn");
                if(!bound.empty()) {
                    count("midi.bound_nrpn");
                    size_t f = f2;
                    for(int i : bound) { size_t nmsg = 0; for(auto &su : m.slots[i].subs) nmsg += su.used; size_t upto = f + nmsg; std::vector<Emitted> save(g_out.begin() + std::min(upto, g_out.size()), g_out.end()); g_out.resize(std::min(upto, g_out.size())); check_set(m, i, (double)(float)(value / 16383.0), f, "bound NRPN"); g_out.insert(g_out.end(), save.begin(), save.end()); f = upto; }
                } else if(!m.queue.empty()) {
                    int sl = m.queue.front();
                    m.queue.erase(m.queue.begin());
                    m.slots[sl].nrpn = id;
                    count("midi.learned_nrpn");
                    // the value that triggers the learn is not constrained here (scaled by 127 in the library)
                }
            }
        }
        // state comparison after every operation
        if(g_failed) break;
        if(mgr->learn_queue_len != (int)m.queue.size()) { bad("learn_queue_len", std::to_string(mgr->learn_queue_len), std::to_string(m.queue.size())); break; }
        for(int i = 0; i < nslots; ++i) {
            int lp = m.pos_of(i);
            if(mgr->slots[i].learning != lp) { bad("learn_position", fmt("slot %d learning=%d", i, mgr->slots[i].learning), fmt("%d (queue position)", lp)); break; }
            if(mgr->slots[i].midi_cc != m.slots[i].cc) { bad("bound_cc", fmt("slot %d midi_cc=%d", i, mgr->slots[i].midi_cc), std::to_string(m.slots[i].cc)); break; }
            if(mgr->slots[i].midi_nrpn != m.slots[i].nrpn) { bad("bound_nrpn", fmt("slot %d midi_nrpn=%d", i, mgr->slots[i].midi_nrpn), std::to_string(m.slots[i].nrpn)); break; }
        }
    }
    describe_case(g_hist);
    distinct(hash_str(g_hist));
    sample(jstr(g_hist.substr(0, 300)));
}

int main(int argc, char **argv)
{
    return main_loop(argc, argv, 0xC19, [](uint64_t, Rng &r) { run_case(r); });
}
