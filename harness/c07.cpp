// C07 — validation of untrusted bytes is sound.
// Oracle: exact-size guard-page copy of the input (a read outside faults),
// explicit range checks of every pointer an accessor returns, and an
// independent lenient OSC decoder for the values.
// Modes: "exh" (exhaustive small buffers), "mut" (structure-aware mutation).
#include "oscgen.h"
using namespace vh;

static GuardBuf *G;
static std::string g_desc;

static bool inside(const void *q, size_t n, const char *p, size_t len)
{
    return (const char *)q >= p && (const char *)q + n <= p + len && (const char *)q + n >= (const char *)q;
}

// the heart: judge one buffer
static void check_buffer(const unsigned char *data, size_t n, const std::vector<std::string> &tags)
{
    const char *p = G->place_copy(data, n);
    count("buffers");
    size_t ml = rtosc_message_length(p, n);
    if(ml > n) fail("length_exceeds_buffer", tags, g_desc, std::to_string(ml), fmt("0 or <= %zu", n));
    if(ml) count("length.nonzero");
    bool v = rtosc_valid_message_p(p, n);
    if(!v) { count("verdict.rejected"); return; }
    count("verdict.accepted");
    // Accessor sweep driven by the library itself; every returned pointer is range-checked,
    // every fixed-size read that leaves the n bytes faults on the guard page.
    ref::Decoded d = ref::decode((const unsigned char *)p, n, true);   // strict reference
    if(d.ok) count("accepted.strictly_wellformed"); else count("accepted.reference_rejects");
    // A fixed buffer receives message after message; the very first argument read from the new message is the
    // one behind the last argument read from its predecessor (no other accessor call in between).  Compared
    // below with what a fresh front-to-back reading of the same bytes gives.
    static char *arena = (char *)calloc(1, 8192);
    static size_t arena_last = 0;
    bool probed = false; size_t probe = 0; char probe_t = 0; rtosc_arg_t probe_a;
    memset(&probe_a, 0, sizeof probe_a);
    if(n + 8 <= 8192) {
        memcpy(arena, data, n);
        memset(arena + n, 0, 8);
        unsigned na0 = rtosc_narguments(arena);
        if(na0 >= 2 && na0 <= n) { probe = (arena_last + 1) % na0; probe_t = rtosc_type(arena, probe); probe_a = rtosc_argument(arena, probe); probed = true; count("accessor.reused_buffer_probe"); }
    }
    const char *as = rtosc_argument_string(p);
    if(!inside(as, 1, p, n) || strnlen(as, p + n - as) == (size_t)(p + n - as)) { fail("argument_string_bounds", tags, g_desc, "outside / unterminated", "inside buffer"); return; }
    if(d.ok && d.types != as) { fail("argument_string_value", tags, g_desc, vis(as, strlen(as)), vis(d.types)); return; }
    unsigned na = rtosc_narguments(p);
    if(d.ok && na != d.vals.size()) fail("narguments", tags, g_desc, std::to_string(na), std::to_string(d.vals.size()));
    if(na > n) { fail("narguments_bounds", tags, g_desc, std::to_string(na), "<= n"); return; }
    rtosc_arg_itr_t it = rtosc_itr_begin(p);
    std::vector<std::pair<char, rtosc_arg_t>> first(na);
    for(size_t i = 0; i < na; ++i) {
        for(int pass = 0; pass < 2; ++pass) {
            char t;
            rtosc_arg_t a;
            if(pass == 0) { t = rtosc_type(p, i); a = rtosc_argument(p, i); first[i].first = t; memset(&first[i].second, 0, sizeof(rtosc_arg_t)); first[i].second = a; }
            else {
                if(rtosc_itr_end(it)) { fail("iterator_short", tags, g_desc, fmt("ended at %zu", i), std::to_string(na)); return; }
                rtosc_arg_val_t av = rtosc_itr_next(&it);
                t = av.type; a = av.val;
            }
            const char *who = pass ? "iterator" : "by_index";
            count(pass ? "accessor.iterator" : "accessor.by_index");
            // bounds part (always)
            if(t == 's' || t == 'S') {
                if(!inside(a.s, 1, p, n)) { fail(std::string(who) + "_string_bounds", tags, g_desc, fmt("arg %zu pointer at offset %ld of %zu", i, (long)(a.s - p), n), "inside buffer"); return; }
                if(strnlen(a.s, p + n - a.s) == (size_t)(p + n - a.s)) { fail(std::string(who) + "_string_unterminated", tags, g_desc, fmt("arg %zu", i), "NUL inside buffer"); return; }
            } else if(t == 'b') {
                if(a.b.len < 0 || !inside(a.b.data, (size_t)a.b.len, p, n)) { fail(std::string(who) + "_blob_bounds", tags, g_desc, fmt("arg %zu len %d at offset %ld of %zu", i, a.b.len, (long)((const char *)a.b.data - p), n), "inside buffer"); return; }
            }
            if(pass == 1 && !inside(it.value_pos, 0, p, n)) { fail("iterator_position_bounds", tags, g_desc, fmt("after arg %zu at offset %ld of %zu", i, (long)((const char *)it.value_pos - p), n), "inside buffer"); return; }
            // value part (when the strict reference decodes the same bytes)
            if(!d.ok || i >= d.vals.size()) continue;
            const ref::Val &rv = d.vals[i];
            if(t != rv.type) { fail(std::string(who) + "_type", tags, g_desc, fmt("arg %zu '%c'", i, t), std::string(1, rv.type)); return; }
            switch(t) {
                case 'i': case 'c': case 'r': if((uint32_t)a.i != rv.u32) fail(std::string(who) + "_value", tags, g_desc, fmt("arg %zu %08x", i, (uint32_t)a.i), fmt("%08x", rv.u32)); break;
                case 'f': { uint32_t u; memcpy(&u, &a.f, 4); if(u != rv.u32) fail(std::string(who) + "_value", tags, g_desc, fmt("arg %zu %08x", i, u), fmt("%08x", rv.u32)); break; }
                case 'h': case 't': case 'd': { uint64_t u; memcpy(&u, &a.t, 8); if(u != rv.u64) fail(std::string(who) + "_value", tags, g_desc, fmt("arg %zu %016llx", i, (unsigned long long)u), fmt("%016llx", (unsigned long long)rv.u64)); break; }
                case 'm': if(memcmp(a.m, rv.m, 4)) fail(std::string(who) + "_value", tags, g_desc, "midi differs", "equal"); break;
                case 's': case 'S': if(rv.s != a.s) fail(std::string(who) + "_value", tags, g_desc, fmt("arg %zu \"%s\"", i, vis(a.s, strlen(a.s)).c_str()), vis(rv.s)); break;
                case 'b': if((size_t)a.b.len != rv.blob.size() || memcmp(a.b.data, rv.blob.data(), rv.blob.size())) fail(std::string(who) + "_value", tags, g_desc, fmt("arg %zu blob len %d", i, a.b.len), fmt("len %zu same bytes", rv.blob.size())); break;
                case 'T': if(a.T != 1) fail(std::string(who) + "_value", tags, g_desc, "T false", "true"); break;
                case 'F': if(a.T != 0) fail(std::string(who) + "_value", tags, g_desc, "F true", "false"); break;
                default: break;
            }
        }
    }
    if(!rtosc_itr_end(it)) fail("iterator_long", tags, g_desc, "iterator yields more values than rtosc_narguments", std::to_string(na));
    // accessors are functions of the bytes: the same arguments read back to front give the same answers
    for(size_t k = na; k-- > 0;) {
        char t = rtosc_type(p, k);
        rtosc_arg_t a = rtosc_argument(p, k);
        bool same = t == first[k].first;
        if(same) switch(t) {
            case 's': case 'S': same = a.s == first[k].second.s; break;
            case 'b': same = a.b.data == first[k].second.b.data && a.b.len == first[k].second.b.len; break;
            case 'h': case 't': case 'd': same = !memcmp(&a.t, &first[k].second.t, 8); break;
            case 'i': case 'c': case 'r': case 'f': case 'm': same = !memcmp(&a.i, &first[k].second.i, 4); break;
            default: break;
        }
        count("accessor.by_index_descending");
        if(!same) { fail("by_index_order_dependent", tags, g_desc, fmt("arg %zu read after arg %zu differs from the first reading", k, k + 1), "the same value whatever was read before"); break; }
    }
    // ... wherever the message lies: 1..3 bytes behind an aligned address (upstream: test/message-alignment.c)
    if(na) {
        size_t shift = 1 + hash_bytes(data, n) % 3;
        char *hb = (char *)malloc(n + shift);
        memcpy(hb + shift, data, n);
        const char *q = hb + shift;
        count("accessor.unaligned_copies");
        rtosc_arg_itr_t it2 = rtosc_itr_begin(q);
        for(size_t k = 0; k < na; ++k) {
            bool ok2 = true;
            for(int pass = 0; pass < 2 && ok2; ++pass) {
                char t; rtosc_arg_t a;
                if(pass == 0) { t = rtosc_type(q, k); a = rtosc_argument(q, k); }
                else { if(rtosc_itr_end(it2)) { ok2 = false; break; } rtosc_arg_val_t av = rtosc_itr_next(&it2); t = av.type; a = av.val; }
                bool same = t == first[k].first;
                if(same) switch(t) {
                    case 's': case 'S': same = a.s - q == first[k].second.s - p; break;
                    case 'b': same = (const char *)a.b.data - q == (const char *)first[k].second.b.data - p && a.b.len == first[k].second.b.len; break;
                    case 'h': case 't': case 'd': same = !memcmp(&a.t, &first[k].second.t, 8); break;
                    case 'i': case 'c': case 'r': case 'f': case 'm': same = !memcmp(&a.i, &first[k].second.i, 4); break;
                    default: break;
                }
                if(!same) ok2 = false;
            }
            if(!ok2) { fail("accessor_depends_on_alignment", tags, g_desc, fmt("arg %zu of the same bytes at an aligned address + %zu differs", k, shift), "the same value wherever the message lies"); break; }
        }
        free(hb);
    }
    // ... and whatever message stood at the same address before (probe taken above)
    if(probed && probe < na) {
        char t = probe_t; const rtosc_arg_t &a = probe_a;
        bool same = t == first[probe].first;
        if(same) switch(t) {
            case 's': case 'S': same = a.s - arena == first[probe].second.s - p; break;
            case 'b': same = (const char *)a.b.data - arena == (const char *)first[probe].second.b.data - p && a.b.len == first[probe].second.b.len; break;
            case 'h': case 't': case 'd': same = !memcmp(&a.t, &first[probe].second.t, 8); break;
            case 'i': case 'c': case 'r': case 'f': case 'm': same = !memcmp(&a.i, &first[probe].second.i, 4); break;
            default: break;
        }
        if(!same) fail("by_index_history_dependent", tags, g_desc, fmt("arg %zu read first from a buffer that held another message before differs from a fresh reading", probe), "the same value whatever the buffer held before");
    }
    // last accessor call of this case: one argument of the copy in the fixed buffer
    if(na >= 1 && n + 8 <= 8192) { arena_last = (size_t)(hash_bytes(data, n) % na); (void)rtosc_argument(arena, arena_last); }
    if(na) count("accepted.with_args");
}

// ---------------------------------------------------------------- exhaustive families
static const unsigned char A8[8] = {0x00, '/', ',', 's', 'b', 0x01, 0xff, '#'};
static const unsigned char T8[8] = {',', 's', 'b', 'i', 'T', '[', 0x00, 'x'};
static const unsigned char P4[4] = {0x00, 0x01, 'a', 0xff};

static uint64_t fam0_count(int maxlen) { uint64_t n = 1, tot = 0; for(int l = 0; l <= maxlen; ++l) { tot += n; n *= 8; } return tot; }

static void run_exh(uint64_t i)
{
    int maxlen = g_args.thorough() ? 8 : 7;
    uint64_t f0 = fam0_count(maxlen);
    unsigned char b[64];
    size_t n = 0;
    if(i < f0) {
        uint64_t k = i, cnt = 1; int len = 0;
        while(k >= cnt) { k -= cnt; cnt *= 8; ++len; }
        for(int j = len - 1; j >= 0; --j) { b[j] = A8[k % 8]; k /= 8; }
        n = len;
        count("exh.family_raw");
    } else {
        // "/a\0\0" + 4 tag bytes (8 symbols each) + payload of 4 (quick) / 8 (thorough) bytes over 4 symbols
        uint64_t k = i - f0;
        int pl = g_args.thorough() ? 8 : 4;
        int psym = g_args.thorough() ? 3 : 4;
        memcpy(b, "/a\0\0", 4);
        for(int j = 0; j < 4; ++j) { b[4 + j] = T8[k % 8]; k /= 8; }
        for(int j = 0; j < pl; ++j) { b[8 + j] = P4[k % psym]; k /= psym; }
        n = 8 + pl;
        // vary total length too: k's remaining part selects a truncation 0..3 words
        size_t cut = (k % 3) * 4;
        if(cut <= (size_t)pl) n -= cut;
        count("exh.family_tagged");
    }
    g_desc = "bytes=" + hexs(b, n);
    if(g_args.verbose) describe_case(g_desc);
    if((g_evaluations & 0x3fff) == 0) { distinct(hash_bytes(b, n)); sample(jstr("bytes=" + hexs(b, n)), 8); }
    check_buffer(b, n, {});
}

// ---------------------------------------------------------------- mutation
static void put32(ref::bytes &b, size_t off, uint32_t v) { for(int k = 0; k < 4; ++k) b[off + k] = (v >> (8 * (3 - k))) & 0xff; }

static void run_mut(Rng &r)
{
    gen::Msg m = gen::gen_msg(r, 7, true);
    if(m.addr[0] != '/') m.addr[0] = '/';
    for(auto &v : m.vals) if(v.blob.size() > 200) v.blob.resize(200);
    ref::bytes b = m.encode();
    std::vector<std::string> tags;
    std::string how;
    // locate blob length words and string args through the reference decoder
    ref::Decoded d = ref::decode(b.data(), b.size());
    int nm = (int)r.range(0, 3);
    for(int k = 0; k < nm && !b.empty(); ++k) {
        switch(r.below(12)) {
            case 0: { size_t cut = (size_t)r.below(b.size() + 1); b.resize(cut); how += fmt("truncate@%zu ", cut); break; }
            case 1: { // flip a padding (NUL) byte
                std::vector<size_t> z; for(size_t i = 0; i < b.size(); ++i) if(!b[i]) z.push_back(i);
                if(!z.empty()) { size_t o = z[r.below(z.size())]; b[o] = (unsigned char)(r.chance(0.5) ? 'x' : r.range(1, 255)); how += fmt("nul->%02x@%zu ", b[o], o); }
                break; }
            case 2: { // blob length special values
                std::vector<size_t> bl; for(auto &v : d.vals) if(v.type == 'b' && v.off + 4 <= b.size()) bl.push_back(v.off);
                if(!bl.empty()) {
                    size_t o = bl[r.below(bl.size())];
                    size_t rem = b.size() - o - 4;
                    static const uint32_t S[] = {0x7fffffffu, 0x80000000u, 0xfffffffcu, 0xfffffffdu, 0xfffffffeu, 0xffffffffu, 0xfffffff8u, 0xffffff00u, 0x00010000u};
                    uint32_t nv = r.chance(0.5) ? S[r.below(9)] : (uint32_t)(rem + r.range(-5, 5));
                    if(r.chance(0.2)) nv = (uint32_t)(0u - (uint32_t)r.range(0, 64) * 4u + (uint32_t)r.range(0, 3)); // wraps 32-bit position arithmetic
                    put32(b, o, nv); how += fmt("bloblen=%08x@%zu ", nv, o);
                    tags.push_back("blob_length_crafted");
                }
                break; }
            case 3: { // corrupt a type tag
                size_t c = 0; while(c < b.size() && b[c] != ',') ++c;
                if(c + 1 < b.size()) { size_t o = c + 1 + r.below(std::max<size_t>(1, m.types.size())); if(o < b.size()) { b[o] = (unsigned char)(r.chance(0.7) ? gen::TAGS17[r.below(17)] : r.range(1, 255)); how += fmt("tag=%c@%zu ", b[o], o); } }
                break; }
            case 4: { size_t o = (size_t)r.below(b.size()); b[o] = ','; how += fmt("comma@%zu ", o); break; }
            case 5: { // splice another message
                gen::Msg m2 = gen::gen_msg(r, 4, true); ref::bytes b2 = m2.encode();
                size_t o = (size_t)r.below(b.size() + 1); b.insert(b.begin() + o, b2.begin(), b2.end()); how += fmt("splice@%zu ", o); break; }
            case 6: { // bundle header with crafted size words
                ref::bytes h; ref::put_str(h, "#bundle"); ref::put64(h, r.next());
                static const uint32_t S[] = {0xfffffffcu, 0xfffffff8u, 0xffffffffu, 0x80000000u, 0x7ffffffcu, 4u, 0u, 0xfffffff0u};
                int ne = (int)r.range(1, 3);
                for(int e = 0; e < ne; ++e) {
                    uint32_t sz = r.chance(0.5) ? S[r.below(8)] : (uint32_t)b.size();
                    ref::put32(h, sz);
                    if(r.chance(0.7)) h.insert(h.end(), b.begin(), b.end());
                }
                b = h; how += "bundle_header "; tags.push_back("bundle");
                break; }
            case 7: { size_t o = (size_t)r.below(b.size()); b[o] = (unsigned char)r.next(); how += fmt("byte@%zu ", o); break; }
            case 8: { int add = (int)r.range(1, 8); for(int a = 0; a < add; ++a) b.push_back((unsigned char)(r.chance(0.5) ? 0 : r.next())); how += fmt("append%d ", add); break; }
            case 9: { // remove a string terminator region entirely (all NULs after some offset -> 'y')
                size_t o = (size_t)r.below(b.size()); for(size_t i = o; i < b.size() && i < o + 8; ++i) if(!b[i]) b[i] = 'y'; how += fmt("unterminate@%zu ", o); break; }
            case 10: { size_t o = (size_t)r.below(b.size()); b.erase(b.begin() + o); how += fmt("erase@%zu ", o); break; }
            case 11: { // string starting with NUL followed by non-zero padding
                std::vector<size_t> so; for(auto &v : d.vals) if((v.type == 's' || v.type == 'S') && v.off + 4 <= b.size()) so.push_back(v.off);
                if(!so.empty()) { size_t o = so[r.below(so.size())]; b[o] = 0; for(int j = 1; j < 4; ++j) if(r.chance(0.7)) b[o + j] = (unsigned char)r.range(1, 255); how += fmt("nulstr@%zu ", o); }
                break; }
        }
    }
    if(b.size() > 512) b.resize(512);
    if(nm == 0) count("mut.unmodified");
    g_desc = "base={" + m.render() + "} mut=[" + how + "] bytes(" + std::to_string(b.size()) + ")=" + hexs(b.data(), b.size() > 120 ? 120 : b.size());
    describe_case(g_desc, tags);
    distinct(hash_bytes(b.data(), b.size()));
    sample(jstr(g_desc.substr(0, 300)));
    size_t acc0 = g_counters["verdict.accepted"];
    check_buffer(b.data(), b.size(), tags);
    if(nm && g_counters["verdict.accepted"] != acc0) count("mut.accepted_after_mutation");
}

// ---------------------------------------------------------------- coverage-guided (libFuzzer drives check_buffer)
#ifdef VH_FUZZ
#include <sys/stat.h>
#include <dirent.h>
extern "C" int LLVMFuzzerRunDriver(int *argc, char ***argv, int (*cb)(const uint8_t *, size_t));
static int fuzz_one(const uint8_t *data, size_t n)
{
    if(n > 512) return 0;
    uint64_t k = g_evaluations < g_args.count ? g_evaluations : g_args.count - 1;
    g_case_index = (int64_t)(g_args.from + k);
    g_progress.fetch_add(1, std::memory_order_relaxed);
    g_cur_data = data; g_cur_size = n;
    g_desc = "bytes=" + hexs(data, n);
    distinct(hash_bytes(data, n));
    if((g_evaluations & 0xfff) == 0) sample(jstr(g_desc.substr(0, 300)));
    count("fuzz.inputs");
    size_t acc0 = g_counters["verdict.accepted"];
    check_buffer(data, n, {});
    if(g_counters["verdict.accepted"] != acc0) count("fuzz.accepted");
    ++g_evaluations;
    g_cur_data = 0;
    return 0;
}
static std::string g_corpus_dir;
static void fuzz_atexit()
{
    if(g_clean_exit) return;
    // libFuzzer leaves through exit(0) once -runs is exhausted
    if(DIR *d = opendir(g_corpus_dir.c_str())) {
        while(struct dirent *e = readdir(d)) if(e->d_name[0] != '.') unlink((g_corpus_dir + "/" + e->d_name).c_str());
        closedir(d);
        rmdir(g_corpus_dir.c_str());
    }
    g_case_index = -1;
    finish();
}
static int run_fuzz(int argc, char **argv)
{
    begin(argc, argv);
    if(!g_args.hex.empty()) {   // replay of one recorded input
        std::vector<unsigned char> b;
        for(size_t i = 0; i + 1 < g_args.hex.size(); i += 2) b.push_back((unsigned char)strtoul(g_args.hex.substr(i, 2).c_str(), 0, 16));
        g_case_index = (int64_t)g_args.from;
        g_desc = "bytes=" + hexs(b.data(), b.size());
        describe_case(g_desc);
        g_cur_data = b.data(); g_cur_size = b.size();
        check_buffer(b.data(), b.size(), {});
        g_cur_data = 0;
        ++g_evaluations;
        g_case_index = -1;
        finish();
        return 0;
    }
    // seed corpus: valid messages and bundles from the shared generator
    g_corpus_dir = g_args.out + ".corpus";
    mkdir(g_corpus_dir.c_str(), 0755);
    Rng r(mix(mix(g_args.seed, 0xC07F), g_args.from));
    for(int i = 0; i < 192; ++i) {
        gen::Msg m = gen::gen_msg(r, 6, true);
        if(m.addr[0] != '/') m.addr[0] = '/';
        for(auto &v : m.vals) if(v.blob.size() > 64) v.blob.resize(64);
        ref::bytes b = m.encode();
        if(i % 6 == 5) { gen::Msg m2 = gen::gen_msg(r, 3, true); b = ref::bundle(r.next(), {b, m2.encode()}); }
        if(b.size() > 512) continue;
        FILE *f = fopen((g_corpus_dir + fmt("/seed%03d", i)).c_str(), "wb");
        if(f) { fwrite(b.data(), 1, b.size(), f); fclose(f); count("fuzz.corpus_seeds"); }
    }
    atexit(fuzz_atexit);
    std::vector<std::string> a = {argv[0], fmt("-runs=%llu", (unsigned long long)g_args.count),
        fmt("-seed=%u", (unsigned)(mix(g_args.seed, g_args.from) % 0x7fffffff + 1)), "-max_len=512", "-len_control=0",
        "-handle_segv=0", "-handle_bus=0", "-handle_abrt=0", "-handle_ill=0", "-handle_fpe=0", "-handle_int=0", "-handle_term=0",
        "-handle_xfsz=0", "-handle_usr1=0", "-handle_usr2=0", "-timeout=0", "-rss_limit_mb=0", "-detect_leaks=0", "-reload=0",
        "-verbosity=1", "-print_final_stats=1", "-artifact_prefix=" + g_corpus_dir + "/", g_corpus_dir};
    std::vector<char *> av;
    for(auto &x : a) av.push_back((char *)x.c_str());
    av.push_back(0);
    int ac = (int)a.size();
    char **avp = av.data();
    LLVMFuzzerRunDriver(&ac, &avp, fuzz_one);
    exit(0);
}
#endif

int main(int argc, char **argv)
{
    GuardBuf g(4096);
    G = &g;
    parse_args(argc, argv);
#ifdef VH_FUZZ
    if(g_args.mode == "fuzz") return run_fuzz(argc, argv);
#endif
    bool exh = g_args.mode == "exh";
    return main_loop(argc, argv, 0xC07, [exh](uint64_t i, Rng &r) {
        if(exh) run_exh(i); else run_mut(r);
    });
}
