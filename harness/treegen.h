// Run-time generated port trees (description + real rtosc::Ports) with logging
// callbacks, and a reference dispatcher / reference walker over the description.
// Shared by C03, C04, C09, C18.
#pragma once
#include <deque>
#include <memory>
#include <algorithm>
#include <rtosc/ports.h>
#include "vh.h"
#include "patref.h"

namespace tg {
using vh::Rng;

struct DynPorts : rtosc::Ports {
    DynPorts() : Ports({}) {}
    void add(const rtosc::Port &p) { ports.push_back(p); }
    void done() { refreshMagic(); }
};

struct Table;
struct PortDesc {
    int id = 0;
    std::string name;         // path part: "ab", "v#3", "s/", "w#2/"
    std::string spec;         // "" or ":i" ...
    std::string full;         // name + spec (storage for Port::name)
    std::string meta;         // metadata bytes (storage)
    pat::Pattern pattern;     // parsed
    Table *sub = nullptr;
    Table *owner = nullptr;
    int index_in_table = 0;
    bool is_sub() const { return sub != nullptr; }
};
struct Table {
    int id = 0;
    int depth = 0;
    std::vector<std::unique_ptr<PortDesc>> ports;
    bool has_default = false;
    rtosc::Ports *lib = nullptr;         // the table the library dispatches on
    std::unique_ptr<DynPorts> dyn, dyn2; // owned storage (dyn2: second half for MergePorts)
    std::unique_ptr<rtosc::Ports> derived;
    std::string built_as = "direct";
    bool has_hash_enum() const { for(auto &p : ports) if(p->name.find('#') != std::string::npos) return true; return false; }
};

struct LogEntry {
    int id;               // port id, -1 - table id for a default handler
    const char *m;        // message pointer the callback received
    std::string loc;      // snapshot of d.loc ("" if none)
    bool had_loc;
    void *obj;
    const rtosc::Port *port;
    const char *message;
};

struct Tree {
    std::deque<std::unique_ptr<Table>> tables;
    Table *root = nullptr;
    std::vector<LogEntry> log;
    int next_id = 0;
    std::vector<PortDesc *> all_ports;
};

static bool g_quiet = false;
static uint64_t g_quiet_calls = 0, g_quiet_default_calls = 0;

static inline void *token(int port_id, long idx) { return (void *)(uintptr_t)(0x100000 + port_id * 4096 + (idx + 1)); }
// the child object a sub-tree callback derives from the object it was handed (as rRecur does with obj->member): a wrong incoming object gives a wrong child
static inline void *child_token(void *parent, int port_id, long idx) { return (void *)(((uintptr_t)token(port_id, idx)) ^ (((uintptr_t)parent * 0x9E3779B97F4A7C15ull) & 0xffffff0000000ull)); }
static inline void *root_token() { return (void *)(uintptr_t)0xbeef0; }

static inline pat::Pattern parse_name(const std::string &name, const std::string &spec)
{
    pat::Pattern p;
    std::string n = name;
    if(!n.empty() && n.back() == '/') { p.slash = true; n.pop_back(); }
    size_t i = 0;
    while(i < n.size()) {
        if(n[i] == '#') {
            size_t j = i + 1;
            while(j < n.size() && isdigit((unsigned char)n[j])) ++j;
            pat::Item it; it.kind = pat::Item::ENUM; it.n = atol(n.substr(i + 1, j - i - 1).c_str());
            p.items.push_back(it);
            i = j;
        } else {
            size_t j = i;
            while(j < n.size() && n[j] != '#') ++j;
            pat::Item it; it.kind = pat::Item::LIT; it.lit = n.substr(i, j - i);
            p.items.push_back(it);
            i = j;
        }
    }
    if(!spec.empty()) {
        p.has_spec = true;
        size_t s = 1;
        while(true) {
            size_t e = spec.find(':', s);
            p.spec.push_back(spec.substr(s, e == std::string::npos ? std::string::npos : e - s));
            if(e == std::string::npos) break;
            s = e + 1;
        }
    }
    return p;
}

struct GenOpts {
    int max_ports = 24;
    int max_depth = 3;
    double p_enum = 0.15;
    double p_sub = 0.2;
    double p_spec = 0.4;
    double p_default = 0.15;
    double p_dup = 0.03;
    bool allow_derived = true;   // ClonePorts / MergePorts
    bool multi_component = false; // names like a#3/b/ (C09)
    int max_enum = 12;
    bool long_names = false;
    bool unique_names = false;
    double p_overlap_sub = 0;     // a second sub-tree port in the same table whose enumeration overlaps ("v#4/" next to "v#8/"): both receive /v2/... (C04)
    double p_sub_spec = 0;        // sub-tree ports that carry an argument spec ("sub/:i"): the spec filters every message routed below (C04)
    double p_slash_leaf = 0;      // leaf ports whose name ends in '/' although they have no sub-table (C18)
};

static inline std::string gen_name(Rng &r, const GenOpts &o)
{
    static const char *AL[] = {"a", "b", "c", "ab", "ba", "bb", "aa", "abc", "bab", "aba", "aab", "acc", "cab", "abab", "bc", "ca"};
    std::string n;
    if(r.chance(0.6)) n = AL[r.below(16)];
    else { int len = (int)r.range(1, 4); for(int i = 0; i < len; ++i) n += "abc"[r.below(3)]; }
    if(o.long_names && r.chance(0.25)) n += "_long_port_name_" + std::to_string(r.below(10));
    return n;
}

static inline Table *gen_table(Tree &t, Rng &r, const GenOpts &o, int depth)
{
    t.tables.emplace_back(new Table);
    Table *tb = t.tables.back().get();
    tb->id = (int)t.tables.size() - 1;
    tb->depth = depth;
    int maxp = depth == 0 ? o.max_ports : std::max(1, o.max_ports / (depth * 3));
    int n = (int)r.range(1, r.chance(0.5) ? std::min(6, maxp) : maxp);
    bool enums_here = r.chance(0.35);
    static const char *SPECS[] = {":i", ":f:i", "::s", ":", "::i", ":T:F", ":ii"};
    for(int i = 0; i < n; ++i) {
        std::unique_ptr<PortDesc> pd(new PortDesc);
        pd->id = t.next_id++;
        pd->owner = tb;
        bool slash_leaf = false;
        if(i > 0 && r.chance(o.p_dup)) pd->name = tb->ports[r.below(tb->ports.size())]->name;
        else {
            pd->name = gen_name(r, o);
            if(enums_here && r.chance(o.p_enum * 2)) {
                static const int NS[] = {1, 2, 3, 4, 8, 10, 12, 16};
                int N = NS[r.below(8)];
                if(N > o.max_enum) N = o.max_enum;
                pd->name += "#" + std::to_string(N);
            }
            bool sub = depth + 1 < o.max_depth && r.chance(o.p_sub);
            if(sub) {
                if(o.multi_component && r.chance(0.3)) {
                    pd->name += "/" + gen_name(r, o);
                    if(r.chance(0.5)) pd->name += "#" + std::to_string((int)r.range(1, 3));
                }
                pd->name += "/";
            } else if(r.chance(o.p_slash_leaf)) { pd->name += "/"; slash_leaf = true; }
        }
        if(o.unique_names) {
            bool clash = false;
            for(auto &q : tb->ports) { std::string a = q->name.substr(0, q->name.find_first_of("#/")), b = pd->name.substr(0, pd->name.find_first_of("#/")); if(a == b) clash = true; }   // same stem: overlapping addresses
            if(clash) { if(!r.chance(0.2)) --i; continue; }   // retry the slot (or give it up)
        }
        bool is_sub = !pd->name.empty() && pd->name.back() == '/' && !slash_leaf;
        if(is_sub) { pd->sub = gen_table(t, r, o, depth + 1); if(r.chance(o.p_sub_spec)) { static const char *SS[] = {":i", ":f:i", ":i:f:s", ":T:F", "::i"}; pd->spec = SS[r.below(5)]; } }
        else if(r.chance(o.p_spec)) pd->spec = SPECS[r.below(7)];
        pd->full = pd->name + pd->spec;
        pd->pattern = parse_name(pd->name, pd->spec);
        pd->index_in_table = (int)tb->ports.size();
        if(t.all_ports.size() <= (size_t)pd->id) t.all_ports.resize(pd->id + 1);
        t.all_ports[pd->id] = pd.get();
        bool overlap = is_sub && pd->name.find('#') != std::string::npos && pd->name.find('/') == pd->name.size() - 1 && r.chance(o.p_overlap_sub);
        std::string stem = pd->name.substr(0, pd->name.find('#'));
        tb->ports.push_back(std::move(pd));
        if(overlap) {
            std::unique_ptr<PortDesc> q(new PortDesc);
            q->id = t.next_id++; q->owner = tb;
            static const int NS2[] = {2, 5, 8, 11};
            q->name = stem + "#" + std::to_string(NS2[r.below(4)]) + "/";
            q->sub = gen_table(t, r, o, depth + 1);
            q->full = q->name; q->pattern = parse_name(q->name, "");
            q->index_in_table = (int)tb->ports.size();
            if(t.all_ports.size() <= (size_t)q->id) t.all_ports.resize(q->id + 1);
            t.all_ports[q->id] = q.get();
            tb->ports.push_back(std::move(q));
        }
    }
    tb->has_default = r.chance(o.p_default);
    return tb;
}

// index of the first enumerated component in m (digits before the first '/')
static inline long first_index(const char *m)
{
    const char *q = m;
    while(*q && *q != '/' && !isdigit((unsigned char)*q)) ++q;
    return isdigit((unsigned char)*q) ? atol(q) : -1;
}

static inline std::function<void(const char *, rtosc::RtData &)> make_cb(Tree &t, PortDesc *pd)
{
    Tree *tp = &t;
    if(!pd->sub)
        return [tp, pd](const char *m, rtosc::RtData &d) {
            if(g_quiet) { ++g_quiet_calls; return; }   // allocation-free mode (C03)
            tp->log.push_back(LogEntry{pd->id, m, d.loc ? std::string(d.loc) : std::string(), d.loc != 0, d.obj, d.port, d.message});
        };
    return [tp, pd](const char *m, rtosc::RtData &d) {
        d.obj = child_token(d.obj, pd->id, first_index(m));
        // the library's recursion contract (SNIP): cut the toplevel(s) this port's name covers
        int slashes = (int)std::count(pd->name.begin(), pd->name.end(), '/');
        for(int s = 0; s < slashes; ++s) { while(*m && *m != '/') ++m; m = *m ? m + 1 : m; }
        pd->sub->lib->dispatch(m, d);
    };
}

static inline void realize(Tree &t, Table *tb, Rng &r, const GenOpts &o)
{
    for(auto &p : tb->ports) if(p->sub && !p->sub->lib) realize(t, p->sub, r, o);
    Tree *tp = &t;
    // (captures more than std::function's small-object buffer holds: copying the handler would allocate)
    void *pad1 = tb, *pad2 = tp;
    auto defcb = [tp, tb, pad1, pad2](const char *m, rtosc::RtData &d) {
        (void)pad1; (void)pad2;
        if(g_quiet) { ++g_quiet_calls; ++g_quiet_default_calls; return; }
        tp->log.push_back(LogEntry{-1 - tb->id, m, d.loc ? std::string(d.loc) : std::string(), d.loc != 0, d.obj, d.port, d.message});
    };
    auto mkport = [&](PortDesc *pd) {
        return rtosc::Port{pd->full.c_str(), pd->meta.empty() ? nullptr : pd->meta.c_str(), pd->sub ? pd->sub->lib : nullptr, make_cb(t, pd)};
    };
    size_t n = tb->ports.size();
    int how = o.allow_derived ? (int)r.below(10) : 0;
    bool uniq = true;
    for(size_t i = 0; i < n; ++i) for(size_t j = i + 1; j < n; ++j) if(tb->ports[i]->full == tb->ports[j]->full) uniq = false;
    if(how == 8 && n >= 2 && uniq) {
        // MergePorts of two halves (duplicate names would be dropped by the merge, so only for unique names)
        tb->dyn.reset(new DynPorts); tb->dyn2.reset(new DynPorts);
        size_t h = n / 2;
        for(size_t i = 0; i < n; ++i) (i < h ? tb->dyn : tb->dyn2)->add(mkport(tb->ports[i].get()));
        tb->dyn->done(); tb->dyn2->done();
        tb->derived.reset(new rtosc::MergePorts({tb->dyn.get(), tb->dyn2.get()}));
        tb->lib = tb->derived.get();
        tb->built_as = "MergePorts";
        if(tb->has_default) tb->has_default = false; // MergePorts carries no default handler
    } else if(how == 9 && n <= 4 && uniq) {
        // ClonePorts: same names, fresh callbacks; "*" installs the default handler
        tb->dyn.reset(new DynPorts);
        auto dead = [](const char *, rtosc::RtData &) { abort(); };
        for(size_t i = 0; i < n; ++i) { rtosc::Port p = mkport(tb->ports[i].get()); p.cb = dead; tb->dyn->add(p); }
        tb->dyn->done();
        std::vector<rtosc::ClonePort> c;
        for(size_t i = 0; i < n; ++i) c.push_back(rtosc::ClonePort{tb->ports[i]->full.c_str(), make_cb(t, tb->ports[i].get())});
        if(tb->has_default) c.push_back(rtosc::ClonePort{"*", defcb});
        rtosc::Ports *cl = nullptr;
        switch(c.size()) {
            case 1: cl = new rtosc::ClonePorts(*tb->dyn, {c[0]}); break;
            case 2: cl = new rtosc::ClonePorts(*tb->dyn, {c[0], c[1]}); break;
            case 3: cl = new rtosc::ClonePorts(*tb->dyn, {c[0], c[1], c[2]}); break;
            case 4: cl = new rtosc::ClonePorts(*tb->dyn, {c[0], c[1], c[2], c[3]}); break;
            default: cl = new rtosc::ClonePorts(*tb->dyn, {c[0], c[1], c[2], c[3], c[4]}); break;
        }
        tb->derived.reset(cl);
        tb->lib = cl;
        tb->built_as = "ClonePorts";
    } else {
        tb->dyn.reset(new DynPorts);
        for(size_t i = 0; i < n; ++i) tb->dyn->add(mkport(tb->ports[i].get()));
        if(tb->has_default) tb->dyn->default_handler = defcb;
        tb->dyn->done();
        tb->lib = tb->dyn.get();
    }
}

static inline void gen_tree(Tree &t, Rng &r, const GenOpts &o)
{
    t.root = gen_table(t, r, o, 0);
    realize(t, t.root, r, o);
}

static inline std::string render_table(const Table *tb, int indent = 0)
{
    std::string s = "{";
    for(auto &p : tb->ports) {
        s += p->full;
        if(p->sub) s += render_table(p->sub, indent + 1);
        s += " ";
    }
    if(tb->has_default) s += "<default> ";
    if(tb->built_as != "direct") s += "<" + tb->built_as + "> ";
    return s + "}";
}

// ---------------------------------------------------------------- reference dispatcher
struct Expect {
    int id;
    size_t moff;       // offset (within the relative address) of the component the leaf sees
    void *obj;
    bool optional;     // type tags extend an alternative: statement does not decide
    const PortDesc *pd;
};

static inline void ref_dispatch(const Table *tb, const std::string &addr, size_t off, const std::string &types,
                                void *obj, bool optional, std::vector<Expect> &out)
{
    std::string rel = addr.substr(off);
    for(auto &p : tb->ports) {
        size_t consumed = 0;
        if(!pat::path_match(p->pattern, rel, &consumed)) continue;
        if(!p->sub) {
            int tv = pat::type_verdict(p->pattern, types);
            if(tv == 0) continue;
            out.push_back(Expect{p->id, off, obj, optional || tv < 0, p.get()});
        } else {
            // a spec on the sub-tree port admits or rejects the whole message by its type tags
            int tv = p->pattern.has_spec ? pat::type_verdict(p->pattern, types) : 1;
            if(tv == 0) continue;
            ref_dispatch(p->sub, addr, off + consumed, types, child_token(obj, p->id, first_index(rel.c_str())), optional || tv < 0, out);
        }
    }
}

// ---------------------------------------------------------------- reference walk (C09/C18)
struct Walked { const PortDesc *pd; std::string addr; };
static inline void expand_name(const std::string &name, size_t i, std::string cur, std::vector<std::string> &out)
{
    size_t h = name.find('#', i);
    if(h == std::string::npos) { out.push_back(cur + name.substr(i)); return; }
    cur += name.substr(i, h - i);
    size_t j = h + 1;
    while(j < name.size() && isdigit((unsigned char)name[j])) ++j;
    long n = atol(name.substr(h + 1, j - h - 1).c_str());
    for(long k = 0; k < n; ++k) expand_name(name, j, cur + std::to_string(k), out);
}
static inline void ref_walk(const Table *tb, const std::string &prefix, std::vector<Walked> &out)
{
    for(auto &p : tb->ports) {
        std::vector<std::string> names;
        expand_name(p->name, 0, "", names);
        for(auto &n : names) {
            if(p->sub) ref_walk(p->sub, prefix + n, out);
            else out.push_back(Walked{p.get(), prefix + n});
        }
    }
}

} // namespace tg
