// C02 — fixed-buffer discipline: never write past the caller's buffer, fail closed.
// Oracle: guard-page buffer (capacity flush against a PROT_NONE page, canary in
// front) + reference size/bytes, crossed with every capacity 0..needed+8.
#include "oscgen.h"
#include <rtosc/thread-link.h>
#include <rtosc/ports.h>
using namespace vh;
using gen::Msg;

static GuardBuf *G;
// every capacity 0..needed+8 for encodings up to 2 KiB; above that every capacity below 96, every capacity from
// needed-96 on, and every 61st in between (the sweep is quadratic in `needed`)
static size_t next_cap(size_t cap, size_t need)
{
    if(need <= 2048 || cap < 96 || cap + 96 >= need) return cap + 1;
    size_t n = cap + 61;
    return n + 96 >= need ? need - 96 : n;
}

// verdict on one construction call into a buffer of capacity `cap`
static void judge(const char *who, size_t ret, size_t cap, const ref::bytes &rb, const std::string &desc,
                  const std::vector<std::string> &tags)
{
    const unsigned char *p = (const unsigned char *)G->p;
    size_t need = rb.size();
    count(std::string("calls.") + who);
    if(!G->canary_ok()) fail(std::string(who) + "_underrun", tags, desc + fmt(" cap=%zu", cap), "bytes before the buffer changed", "untouched");
    if(cap < need) {
        count("capacity.too_small");
        if(ret != 0) fail(std::string(who) + "_nofit_return", tags, desc + fmt(" cap=%zu need=%zu", cap, need), std::to_string(ret), "0");
        for(size_t i = 0; i < cap; ++i)
            if(p[i]) { fail(std::string(who) + "_nofit_not_zeroed", tags, desc + fmt(" cap=%zu need=%zu", cap, need), fmt("byte %zu = %02x", i, p[i]), "buffer zero-filled"); break; }
    } else {
        count(cap == need ? "capacity.exact" : "capacity.larger");
        if(ret != need) { fail(std::string(who) + "_fit_return", tags, desc + fmt(" cap=%zu", cap), std::to_string(ret), std::to_string(need)); return; }
        if(memcmp(p, rb.data(), need)) fail(std::string(who) + "_fit_bytes", tags, desc + fmt(" cap=%zu", cap), hexs(p, need > 128 ? 128 : need), hexs(rb.data(), need > 128 ? 128 : need));
        // bytes behind the message: untouched (0xA5) or cleared
        for(size_t i = need; i < cap; ++i)
            if(p[i] != 0xA5 && p[i] != 0) { fail(std::string(who) + "_tail_garbage", tags, desc + fmt(" cap=%zu", cap), fmt("byte %zu = %02x", i, p[i]), "untouched or zero"); break; }
    }
}

static void run_message(Rng &r)
{
    Msg m = gen::gen_msg(r, 8, true);
    // keep messages small enough that the capacity sweep stays cheap
    for(auto &v : m.vals) if(v.blob.size() > 300) v.blob.resize(300);
    std::string desc = m.render();
    describe_case(desc);
    ref::bytes rb = m.encode();
    size_t need = rb.size();
    distinct(hash_bytes(rb.data(), need));
    sample(jstr(desc));
    gen::ArgPack ap(m);
    bool va_ok = gen::varargs_exact(m);
    bool tv_ok = va_ok && m.ncarry() <= (size_t)gen::TRUE_VARARGS_MAX;
    bool av_ok = m.types.find('[') == std::string::npos && m.types.find(']') == std::string::npos;
    gen::VaPack vp(m);
    gen::AvPack avp(m);
    // NULL buffer: size query, whatever len says
    for(size_t l : {(size_t)0, need, need + 100}) {
        size_t q = rtosc_amessage(NULL, l, m.addr.c_str(), m.types.c_str(), ap.data());
        count("calls.null_query");
        if(q != need) fail("null_size_query", {}, desc, std::to_string(q), std::to_string(need));
        if(va_ok) {
            size_t q2 = vp.call(NULL, l, m);
            if(q2 != need) fail("null_size_query_vmessage", {}, desc, std::to_string(q2), std::to_string(need));
        }
        if(tv_ok) {
            size_t q3 = gen::call_true_varargs(NULL, l, m, ap);
            if(q3 != need) fail("null_size_query_message", {}, desc, std::to_string(q3), std::to_string(need));
        }
    }
    for(size_t cap = 0; cap <= need + 8; cap = next_cap(cap, need)) {
        g_progress.fetch_add(1, std::memory_order_relaxed);
        G->place(cap);
        judge("amessage", rtosc_amessage(G->p, cap, m.addr.c_str(), m.types.c_str(), ap.data()), cap, rb, desc, {});
        if(va_ok) { G->place(cap); judge("vmessage", vp.call(G->p, cap, m), cap, rb, desc, {}); }
        if(tv_ok) { G->place(cap); judge("message", gen::call_true_varargs(G->p, cap, m, ap), cap, rb, desc, {}); }
        if(av_ok) { G->place(cap); judge("avmessage", rtosc_avmessage(G->p, cap, m.addr.c_str(), avp.av.size(), avp.av.data()), cap, rb, desc, {}); }
    }
}

static void run_bundle(Rng &r)
{
    gen::Elem b = gen::gen_elem(r, (int)r.range(1, 3), true);
    if(b.kids.size() > (size_t)gen::MAX_BUNDLE_ELEMS) b.kids.resize(gen::MAX_BUNDLE_ELEMS);
    if(b.kids.size() > 8) { count("bundle.more_than_8_elements"); for(auto &k : b.kids) if(!k.is_bundle) { for(auto &v : k.msg.vals) if(v.blob.size() > 64) v.blob.resize(64); } }
    // the guard-page buffer holds 128 KiB: several 70 KB blobs in one bundle do not fit, shorten them
    {
        std::function<void(gen::Elem &)> shrink = [&](gen::Elem &e) { if(e.is_bundle) for(auto &k : e.kids) shrink(k); else for(auto &v : e.msg.vals) if(v.blob.size() > 3000) v.blob.resize(3000); };
        if(b.encode().size() + 64 > (1u << 17)) { shrink(b); count("bundle.blobs_shortened_to_fit_guard_buffer"); }
    }
    std::string desc = b.render();
    if(desc.size() > 1500) desc.resize(1500);
    describe_case(desc);
    ref::bytes rb = b.encode();
    size_t need = rb.size();
    distinct(hash_bytes(rb.data(), need));
    sample(jstr(desc), 8);
    // each element in its own buffer followed by 8 zero bytes
    std::vector<ref::bytes> eb;
    std::vector<const char *> ep;
    for(auto &k : b.kids) { ref::bytes e = k.encode(); e.insert(e.end(), 8, 0); eb.push_back(e); }
    for(auto &e : eb) ep.push_back((const char *)e.data());
    count(fmt("bundle.elements_%zu", b.kids.size()));
    for(size_t cap = 0; cap <= need + 8; cap = next_cap(cap, need)) {
        g_progress.fetch_add(1, std::memory_order_relaxed);
        G->place(cap);
        size_t ret = gen::call_bundle(G->p, cap, b.tt, ep);
        judge("bundle", ret, cap, rb, desc, {cap < 16 ? "cap_below_header" : "cap_ge_header"});
    }
}

struct Capture : rtosc::RtData {
    std::vector<std::string> got;
    void reply(const char *msg) override
    {
        // copy what a consumer can know: the message length if it is a message, else 4 zero bytes
        size_t l = msg[0] ? rtosc_message_length(msg, 8192) : 0;
        got.push_back(std::string(msg, l));
    }
    void broadcast(const char *msg) override { reply(msg); }
    using rtosc::RtData::reply;
    using rtosc::RtData::broadcast;
};

static void run_threadlink(Rng &r)
{
    size_t maxmsg = (size_t)(4 * r.range(2, 16));      // 8..64
    size_t nmsg = (size_t)r.range(2, 6);
    rtosc::ThreadLink tl(maxmsg, nmsg);
    std::string desc = fmt("ThreadLink(MaxMsg=%zu,n=%zu): ", maxmsg, nmsg);
    int ops = (int)r.range(1, 6);
    for(int o = 0; o < ops; ++o) {
        // message sizes from far below to far above MaxMsg
        Msg m;
        size_t target = r.chance(0.5) ? (size_t)r.range(8, (int64_t)maxmsg + 8) : (size_t)r.range(8, 4 * (int64_t)maxmsg + 64);
        for(int tries = 0; tries < 50; ++tries) {
            m = gen::gen_msg(r, 6, true);
            m.addr = gen::gen_addr(r, -1, 12);
            if(m.addr[0] == '#') m.addr[0] = '/';
            size_t sz = m.encode().size();
            if(sz + 12 >= target && sz <= target + 12) break;
            if(tries > 30 && sz < target) { // pad with a blob
                m.types += 'b';
                ref::Val v; v.type = 'b'; v.blob.assign(target - sz > 4 ? target - sz - 4 : 0, 0x5a);
                m.vals.push_back(v);
                break;
            }
        }
        ref::bytes rb = m.encode();
        bool use_array = r.chance(0.5) || m.ncarry() > (size_t)gen::TRUE_VARARGS_MAX || !gen::varargs_exact(m);
        std::string d = desc + (use_array ? "writeArray " : "write ") + m.render() + fmt(" size=%zu", rb.size());
        describe_case(d);
        distinct(hash_bytes(rb.data(), rb.size(), maxmsg));
        sample(jstr(d), 10);
        gen::ArgPack ap(m);
        bool before = tl.hasNext();
        if(before) { fail("threadlink_setup", {}, d, "ring not empty", "empty"); return; }
        if(use_array) tl.writeArray(m.addr.c_str(), m.types.c_str(), ap.data());
        else {
            rtosc::ThreadLink *t = &tl;
            const char *a = m.addr.c_str(), *ty = m.types.c_str();
            gen::with_true_varargs(m, ap, [=](auto... x) -> size_t { t->write(a, ty, x...); return 0; });
        }
        count(use_array ? "calls.threadlink_writeArray" : "calls.threadlink_write");
        bool fits = rb.size() <= maxmsg && rb.size() <= maxmsg * nmsg - 1;
        if(!fits) {
            count("threadlink.oversize");
            if(tl.hasNext()) {
                fail("threadlink_oversize_queued", {}, d + fmt(" MaxMsg=%zu", maxmsg), "hasNext() true after a write larger than MaxMsg", "message dropped whole");
                return;
            }
            // write buffer must be left zero-filled (fail closed)
            const char *wb = tl.buffer();
            for(size_t k = 0; k < maxmsg; ++k)
                if(wb[k]) { fail("threadlink_oversize_not_zeroed", {}, d, fmt("write buffer byte %zu = %02x", k, (unsigned char)wb[k]), "zero-filled"); break; }
        } else {
            count("threadlink.fits");
            if(!tl.hasNext()) { fail("threadlink_fit_lost", {}, d, "hasNext() false", "message queued"); return; }
            const char *got = tl.read();
            if(memcmp(got, rb.data(), rb.size())) fail("threadlink_fit_bytes", {}, d, hexs(got, rb.size() > 96 ? 96 : rb.size()), hexs(rb.data(), rb.size() > 96 ? 96 : rb.size()));
            if(tl.hasNext()) fail("threadlink_residue", {}, d, "hasNext() true after reading the only message", "false");
        }
    }
}

static void run_reply(Rng &r)
{
    // messages whose size is around the 8192-byte stack buffers of RtData::reply/broadcast
    Msg m;
    m.addr = gen::gen_addr(r, -1, 20);
    if(m.addr[0] == '#') m.addr[0] = '/';
    int nsmall = (int)r.range(0, 2);
    for(int i = 0; i < nsmall; ++i) { char t = "ihdTsc"[r.below(6)]; m.types += t; m.vals.push_back(gen::gen_val(r, t, 2)); }
    size_t base = m.encode().size();
    bool blob = r.chance(0.5);
    int64_t delta = r.chance(0.7) ? r.range(-24, 24) : r.range(-4000, 4000);
    int64_t target = 8192 + delta;
    int64_t pay = target - (int64_t)base - 4;
    if(pay < 0) pay = 0;
    ref::Val v;
    if(blob) { v.type = 'b'; v.blob.assign((size_t)pay, 0); for(auto &c : v.blob) c = (unsigned char)r.next(); m.types += 'b'; }
    else { v.type = 's'; v.s.assign((size_t)pay, 'q'); m.types += 's'; }
    m.vals.push_back(v);
    ref::bytes rb = m.encode();
    bool bc = r.chance(0.5);
    std::string d = fmt("RtData::%s size=%zu (8192%+lld) types=%s", bc ? "broadcast" : "reply", rb.size(), (long long)((int64_t)rb.size() - 8192), m.types.c_str());
    describe_case(d);
    distinct(hash_str(d));
    sample(jstr(d), 10);
    gen::ArgPack ap(m);
    Capture c;
    Capture *cp = &c;
    const char *a = m.addr.c_str(), *ty = m.types.c_str();
    if(bc) gen::with_true_varargs(m, ap, [=](auto... x) -> size_t { ((rtosc::RtData *)cp)->broadcast(a, ty, x...); return 0; });
    else   gen::with_true_varargs(m, ap, [=](auto... x) -> size_t { ((rtosc::RtData *)cp)->reply(a, ty, x...); return 0; });
    count(bc ? "calls.rtdata_broadcast" : "calls.rtdata_reply");
    if(c.got.size() != 1) { fail("rtdata_forward_count", {}, d, std::to_string(c.got.size()), "1"); return; }
    if(rb.size() <= 8192) {
        count("rtdata.fits");
        if(c.got[0].size() != rb.size() || memcmp(c.got[0].data(), rb.data(), rb.size())) fail("rtdata_fit_bytes", {}, d, fmt("len %zu", c.got[0].size()), fmt("len %zu identical bytes", rb.size()));
    } else {
        count("rtdata.oversize");
        if(!c.got[0].empty()) fail("rtdata_oversize_partial", {}, d, fmt("forwarded %zu bytes", c.got[0].size()), "empty (zero-filled) buffer");
    }
}

int main(int argc, char **argv)
{
    GuardBuf g(1 << 17);
    G = &g;
    return main_loop(argc, argv, 0xC02, [](uint64_t i, Rng &r) {
        switch(i % 10) {
            case 6: case 7: run_bundle(r); break;
            case 8: run_threadlink(r); break;
            case 9: run_reply(r); break;
            default: run_message(r); break;
        }
    });
}
