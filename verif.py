#!/usr/bin/env python3
"""Driver for the rtosc runtime-monitoring checks.

  verif.py setup                     build every library variant and every harness
  verif.py check CNN [--tier quick|thorough]
  verif.py replay <replay.json>
  verif.py list

Exit codes of `check`: 0 held on everything explored, 1 violation (a line
"VIOLATION property=<id> replay=<path>" per distinct signature), 2 harness
failure / inconclusive.  See DESIGN.md section 3.
"""
import sys, os, json, time, hashlib, subprocess, fcntl, shutil, re, glob
from concurrent.futures import ThreadPoolExecutor

HERE = os.path.dirname(os.path.abspath(__file__))
SRC = os.environ.get('RTOSC_SRC', '/repo')
BUILD = os.path.join(HERE, 'build')
EVID = os.path.join(HERE, 'evidence')
REPLAY = os.path.join(HERE, 'replay')
NCPU = int(os.environ.get('VERIF_JOBS', '16'))
GUARD = 'RTOSC_VERIF_HOOKS'

C_SRCS = ['src/rtosc.c', 'src/dispatch.c', 'src/rtosc-time.c']
CPP_SRCS = ['src/cpp/ports.cpp', 'src/cpp/ports-runtime.cpp', 'src/cpp/default-value.cpp',
            'src/cpp/savefile.cpp', 'src/cpp/pretty-format.c', 'src/cpp/arg-ext.c',
            'src/cpp/arg-val.c', 'src/cpp/arg-val-math.c', 'src/cpp/arg-val-cmp.c',
            'src/cpp/arg-val-itr.c', 'src/cpp/util.c', 'src/cpp/miditable.cpp',
            'src/cpp/automations.cpp', 'src/cpp/midimapper.cpp', 'src/cpp/thread-link.cpp',
            'src/cpp/undo-history.cpp', 'src/cpp/subtree-serialize.cpp']

COMMON = ['-g', '-fno-omit-frame-pointer', '-DNDEBUG', '-D' + GUARD, '-w']
VARIANTS = {
    'asan':  dict(cc='gcc', cxx='g++', flags=['-O1', '-fsanitize=address,undefined',
                                              '-fsanitize-recover=undefined'] + COMMON,
                  ld=['-fsanitize=address,undefined']),
    'tsan':  dict(cc='gcc', cxx='g++', flags=['-O1', '-fsanitize=thread'] + COMMON,
                  ld=['-fsanitize=thread']),
    'plain': dict(cc='gcc', cxx='g++', flags=['-O2'] + COMMON, ld=[]),
    # coverage-guided stage: clang, sanitizer coverage for libFuzzer + AddressSanitizer/UBSan; the harness keeps its own main()
    'fuzz':  dict(cc='clang', cxx='clang++', flags=['-O1', '-fsanitize=fuzzer-no-link,address,undefined',
                                                    '-fsanitize-recover=undefined', '-fno-sanitize=object-size',
                                                    '-DVH_FUZZ'] + COMMON,
                  ld=['-fsanitize=address,undefined',
                      '/usr/lib/llvm-14/lib/clang/14.0.6/lib/linux/libclang_rt.fuzzer_no_main-x86_64.a', '-lstdc++']),
}

# ---------------------------------------------------------------------------
# property table: stages = list of dicts
#   harness : source file under harness/ (without .cpp)
#   variant : library variant
#   mode    : passed as --mode
#   quick / thorough : number of cases
#   shards  : max processes
#   need    : counters that must be > 0 or the run is inconclusive
from props import PROPS  # noqa: E402


def log(*a):
    print(*a, file=sys.stderr, flush=True)


def sha(*parts):
    h = hashlib.sha256()
    for p in parts:
        h.update(p if isinstance(p, bytes) else str(p).encode())
        h.update(b'\0')
    return h.hexdigest()


def tree_hash(root, subdirs, exts):
    items = []
    for sd in subdirs:
        for dp, dn, fn in os.walk(os.path.join(root, sd)):
            for f in sorted(fn):
                if f.endswith(exts):
                    p = os.path.join(dp, f)
                    with open(p, 'rb') as fh:
                        items.append((os.path.relpath(p, root), hashlib.sha256(fh.read()).hexdigest()))
    items.sort()
    return sha(json.dumps(items))


class Lock:
    def __init__(self, path):
        os.makedirs(os.path.dirname(path), exist_ok=True)
        self.f = open(path, 'w')

    def __enter__(self):
        fcntl.flock(self.f, fcntl.LOCK_EX)
        return self

    def __exit__(self, *a):
        fcntl.flock(self.f, fcntl.LOCK_UN)
        self.f.close()


def run(cmd, **kw):
    r = subprocess.run(cmd, stdout=subprocess.PIPE, stderr=subprocess.STDOUT, text=True, **kw)
    return r.returncode, r.stdout


def version_c(outdir):
    cm = open(os.path.join(SRC, 'CMakeLists.txt')).read()
    v = {k: re.search(r'set\(%s\s+(\d+)\)' % k, cm).group(1)
         for k in ('VERSION_MAJOR', 'VERSION_MINOR', 'VERSION_PATCH')}
    s = open(os.path.join(SRC, 'src/cpp/version.c.in')).read()
    for k, val in v.items():
        s = s.replace('${%s}' % k, val)
    p = os.path.join(outdir, 'version.c')
    open(p, 'w').write(s)
    return p


def build_lib(variant):
    """Compile the library from SRC's working tree for one variant. Returns list of objects."""
    v = VARIANTS[variant]
    d = os.path.join(BUILD, variant)
    os.makedirs(d, exist_ok=True)
    with Lock(os.path.join(d, '.lock')):
        stamp = sha(SRC, json.dumps(v, sort_keys=True), tree_hash(SRC, ['src', 'include'], ('.c', '.cpp', '.h', '.hh', '.in')),
                    open(os.path.join(SRC, 'CMakeLists.txt'), 'rb').read())
        sp = os.path.join(d, 'lib.stamp')
        objs = []
        jobs = []
        vc = None
        for s in C_SRCS + CPP_SRCS + ['@version']:
            name = 'version.c' if s == '@version' else os.path.basename(s)
            o = os.path.join(d, 'lib_' + name + '.o')
            objs.append(o)
            jobs.append((s, o))
        if os.path.exists(sp) and open(sp).read() == stamp and all(os.path.exists(o) for o in objs):
            return objs, stamp
        t0 = time.time()
        vc = version_c(d)

        def comp(job):
            s, o = job
            path = vc if s == '@version' else os.path.join(SRC, s)
            if path.endswith('.c'):
                cmd = [v['cc'], '-std=gnu99']
            else:
                cmd = [v['cxx'], '-std=gnu++17']
            cmd += v['flags'] + ['-I', os.path.join(SRC, 'include'), '-I', os.path.join(SRC, 'src/cpp'),
                                 '-c', path, '-o', o]
            return (s,) + run(cmd)
        with ThreadPoolExecutor(NCPU) as ex:
            res = list(ex.map(comp, jobs))
        bad = [r for r in res if r[1] != 0]
        if bad:
            for s, rc, out in bad:
                log('BUILD FAILED', s)
                log(out[-3000:])
            if os.path.exists(sp):
                os.unlink(sp)
            raise SystemExit(2)
        open(sp, 'w').write(stamp)
        log('[build] lib %s rebuilt in %.1fs' % (variant, time.time() - t0))
        return objs, stamp


def build_harness(name, variant, extra=None):
    objs, lstamp = build_lib(variant)
    v = VARIANTS[variant]
    d = os.path.join(BUILD, variant)
    exe = os.path.join(d, name)
    hsrc = os.path.join(HERE, 'harness', name + '.cpp')
    with Lock(os.path.join(d, '.lock_' + name)):
        stamp = sha(lstamp, tree_hash(HERE, ['harness'], ('.h',)), open(hsrc, 'rb').read(), json.dumps(extra))
        sp = exe + '.stamp'
        if os.path.exists(sp) and open(sp).read() == stamp and os.path.exists(exe):
            return exe
        t0 = time.time()
        cmd = [v['cxx'], '-std=gnu++17'] + v['flags'] + ['-I', os.path.join(SRC, 'include'),
               '-I', os.path.join(SRC, 'src/cpp'), '-I', os.path.join(HERE, 'harness'),
               hsrc] + objs + ['-o', exe, '-lpthread', '-ldl', '-lm'] + v['ld'] + (extra or [])
        rc, out = run(cmd)
        if rc != 0:
            log('HARNESS BUILD FAILED', name, variant)
            log(out[-6000:])
            if os.path.exists(sp):
                os.unlink(sp)
            raise SystemExit(2)
        open(sp, 'w').write(stamp)
        log('[build] harness %s/%s built in %.1fs' % (variant, name, time.time() - t0))
        return exe


# ---------------------------------------------------------------------------
def harness_env():
    e = dict(os.environ)
    e['TZ'] = 'UTC'
    e['ASAN_OPTIONS'] = 'abort_on_error=1:detect_leaks=0:handle_abort=0:allocator_may_return_null=1:detect_stack_use_after_return=0:max_malloc_fill_size=4096:malloc_fill_byte=190'
    e['UBSAN_OPTIONS'] = 'print_stacktrace=0:halt_on_error=0'
    e['TSAN_OPTIONS'] = 'halt_on_error=0:report_signal_unsafe=0:second_deadlock_stack=1'
    return e


def run_shard(exe, stage, seed, tier, lo, n, outdir, tag, extra_args=(), timeout=None):
    """Run one harness process over cases [lo, lo+n). Restarts after crashes.
    Returns dict(events=[...], summary=[...], crashes=[...], stderr=str, inconclusive=[...])"""
    events, summaries, crashes, inconcl = [], [], [], []
    stderr_all = []
    cur = lo
    end = lo + n
    restarts = 0
    while cur < end:
        out = os.path.join(outdir, '%s.%d.jsonl' % (tag, cur))
        cmd = list(stage.get('wrapper', [])) + [exe, '--seed', str(seed), '--from', str(cur), '--count', str(end - cur),
               '--tier', tier, '--mode', stage.get('mode', ''), '--out', out] + list(stage.get('args', [])) + list(extra_args)
        t0 = time.time()
        try:
            p = subprocess.run(cmd, stdout=subprocess.PIPE, stderr=subprocess.PIPE, env=harness_env(),
                               timeout=timeout or stage.get('timeout', 3600))
            rc, err = p.returncode, p.stderr.decode('utf-8', 'replace')
        except subprocess.TimeoutExpired as te:
            rc, err = -999, (te.stderr or b'').decode('utf-8', 'replace')
        stderr_all.append(err[-20000:])
        clean = False
        crash = None
        last_index = None
        if os.path.exists(out):
            for line in open(out, errors='replace'):
                line = line.strip()
                if not line:
                    continue
                try:
                    ev = json.loads(line)
                except Exception:
                    continue
                t = ev.get('t')
                if t == 'fail':
                    events.append(ev)
                elif t == 'summary':
                    summaries.append(ev)
                    clean = True
                elif t == 'crash':
                    crash = ev
                elif t == 'progress':
                    last_index = ev.get('index')
        if clean and rc == 0:
            break
        # abnormal end
        if crash is None:
            crash = {'t': 'crash', 'index': last_index, 'kind': 'exit rc=%s' % rc}
        crash['rc'] = rc
        crash['stderr'] = err[-6000:]
        crash['wall_s'] = time.time() - t0
        idx = crash.get('index')
        if idx is None or idx < cur or idx >= end:
            inconcl.append('shard %s died outside a case (rc=%s): %s' % (tag, rc, err[-500:]))
            break
        crashes.append(crash)
        restarts += 1
        if restarts > stage.get('max_crashes', 12):
            inconcl.append('shard %s: too many crashes, stopped at case %d' % (tag, idx))
            break
        cur = idx + 1
    return dict(events=events, summaries=summaries, crashes=crashes, stderr='\n'.join(stderr_all),
                inconclusive=inconcl)


def single_case(exe, stage, seed, tier, idx, outdir, timeout=60, hexbytes=None):
    """Re-run exactly one case verbosely; returns (rc, stdout(jsonl events), stderr)"""
    out = os.path.join(outdir, 'single.%d.jsonl' % idx)
    cmd = list(stage.get('wrapper', [])) + [exe, '--seed', str(seed), '--from', str(idx), '--count', '1', '--tier', tier,
           '--mode', stage.get('mode', ''), '--out', out, '--verbose'] + list(stage.get('args', []))
    if hexbytes is not None:
        cmd += ['--hex', hexbytes]
    try:
        p = subprocess.run(cmd, stdout=subprocess.PIPE, stderr=subprocess.PIPE, env=harness_env(), timeout=timeout)
        rc, err = p.returncode, p.stderr.decode('utf-8', 'replace')
    except subprocess.TimeoutExpired as te:
        rc, err = -999, (te.stderr or b'').decode('utf-8', 'replace') + '\n[timeout]'
    evs = []
    if os.path.exists(out):
        for line in open(out, errors='replace'):
            try:
                evs.append(json.loads(line))
            except Exception:
                pass
    return rc, evs, err


LIBFILES = ('rtosc.c', 'dispatch.c', 'rtosc-time.c', 'ports.cpp', 'ports-runtime.cpp', 'default-value.cpp',
            'savefile.cpp', 'pretty-format.c', 'arg-ext.c', 'arg-val.c', 'arg-val-math.c', 'arg-val-cmp.c',
            'arg-val-itr.c', 'util.c', 'miditable.cpp', 'automations.cpp', 'midimapper.cpp', 'thread-link.cpp',
            'undo-history.cpp', 'subtree-serialize.cpp', 'port-sugar.h', 'ports.h', 'bundle-foreach.h',
            'thread-link.h', 'rtosc.h')


def crash_signature(crash):
    """kind + innermost library function from a sanitizer / signal report."""
    err = crash.get('stderr', '')
    kind = crash.get('kind', 'crash')
    m = re.search(r'ERROR: AddressSanitizer: ([\w-]+)', err)
    if m:
        kind = 'asan:' + m.group(1)
        if m.group(1) == 'SEGV' or m.group(1) == 'BUS' or m.group(1) == 'FPE':
            kind = 'asan:' + m.group(1)
    elif 'ThreadSanitizer' in err:
        kind = 'tsan'
    else:
        vm = re.search(r'==\d+== (Conditional jump or move depends on uninitialised value|Use of uninitialised value of size \d+|Invalid (?:read|write) of size \d+|Syscall param .* uninitialised|Source and destination overlap)', err)
        if vm:
            kind = 'memcheck:' + re.sub(r'\s+of size \d+', '', vm.group(1)).replace(' ', '_')[:48]
            for fm in re.finditer(r'==\d+==\s+(?:at|by) 0x[0-9A-Fa-f]+: (\S+) \((\S+?):(\d+)\)', err[vm.start():]):
                if os.path.basename(fm.group(2)) in LIBFILES:
                    return kind, fm.group(1)
            return kind, '?'
    func = '?'
    for fm in re.finditer(r'#\d+ 0x[0-9a-f]+ in (\S+) ([^\s:]+):(\d+)', err):
        f, path = fm.group(1), fm.group(2)
        if os.path.basename(path) in LIBFILES and ('/harness/' not in path):
            func = f
            break
    return kind, func


def load_known():
    p = os.path.join(HERE, 'known_findings.json')
    if not os.path.exists(p):
        return []
    return json.load(open(p)).get('findings', [])


def match_known(prop, check, tags, known):
    for k in known:
        if k.get('status') != 'known' or k.get('property') != prop:
            continue
        m = k.get('match', {})
        if (m.get('check') is None or m.get('check') == check) and (m.get('tag') is None or m.get('tag') in tags) and (m.get('check') or m.get('tag')):
            return k
    return None


def check(prop, tier, seed):
    t_start = time.time()
    spec = PROPS[prop]
    known = load_known()
    os.makedirs(EVID, exist_ok=True)
    os.makedirs(REPLAY, exist_ok=True)
    outdir = os.path.join(BUILD, 'runs', '%s.%s.%d.%d' % (prop, tier, seed, os.getpid()))
    shutil.rmtree(outdir, ignore_errors=True)
    os.makedirs(outdir)
    violations = {}     # signature -> replay dict
    known_seen = {}
    inconclusive = []
    counters = {}
    evaluations = 0
    distinct = set()
    samples = []
    stage_info = []
    san_reports = {}
    ubsan = {}
    watchdog_notes = []

    for si, stage in enumerate(spec['stages']):
        exe = build_harness(stage['harness'], stage['variant'], stage.get('ldextra'))
        n = stage[tier]
        if n <= 0:
            continue
        shards = min(stage.get('shards', NCPU), NCPU, max(1, n // max(1, stage.get('min_per_shard', 1))))
        per = (n + shards - 1) // shards
        ranges = [(i * per, min(per, n - i * per)) for i in range(shards) if n - i * per > 0]
        t0 = time.time()
        with ThreadPoolExecutor(len(ranges)) as ex:
            futs = [ex.submit(run_shard, exe, stage, seed, tier, lo, cnt, outdir, 's%d_%d' % (si, k))
                    for k, (lo, cnt) in enumerate(ranges)]
            results = [f.result() for f in futs]
        st_eval = 0
        for r in results:
            inconclusive += r['inconclusive']
            if stage.get('fuzz'):
                for m in re.finditer(r'#\d+\s+DONE\s+cov: (\d+) ft: (\d+) corp: (\d+)', r['stderr']):
                    counters['fuzz.cov_edges_best_shard'] = max(counters.get('fuzz.cov_edges_best_shard', 0), int(m.group(1)))
                    counters['fuzz.features_best_shard'] = max(counters.get('fuzz.features_best_shard', 0), int(m.group(2)))
                    counters['fuzz.corpus_units_total'] = counters.get('fuzz.corpus_units_total', 0) + int(m.group(3))
            for m in re.finditer(r'runtime error: ([^\n]+)', r['stderr']):
                key = re.sub(r'0x[0-9a-f]+|-?\d+', 'N', m.group(1))[:120]
                ubsan[key] = ubsan.get(key, 0) + 1
            for s in r['summaries']:
                st_eval += s.get('evaluations', 0)
                for k, v in s.get('counters', {}).items():
                    counters[k] = counters.get(k, 0) + v
                for smp in s.get('samples', []):
                    if len(samples) < 12:
                        samples.append(smp)
                df = s.get('distinct_file')
                if df and os.path.exists(df):
                    data = open(df, 'rb').read()
                    for i in range(0, len(data) - 7, 8):
                        distinct.add(data[i:i + 8])
                    os.unlink(df)
            for ev in r['events']:
                chk, tags = ev.get('check', '?'), ev.get('tags', [])
                k = match_known(prop, chk, tags, known)
                if k:
                    known_seen.setdefault(k['id'], dict(k=k, n=0))['n'] += 1
                    continue
                sig = chk + '|' + ','.join(sorted(tags))
                if sig not in violations:
                    violations[sig] = dict(property=prop, harness=stage['harness'], variant=stage['variant'],
                                           mode=stage.get('mode', ''), seed=seed, tier=tier, index=ev.get('index'),
                                           check=chk, tags=tags, case=ev.get('case'), observed=ev.get('observed'),
                                           expected=ev.get('expected'), count=0)
                    if stage.get('fuzz'):
                        hm = re.search(r'bytes=([0-9a-f]*)', str(ev.get('case')))
                        violations[sig]['hex'] = hm.group(1) if hm else ''
                violations[sig]['count'] += 1
        # crashes: confirm at most 2 per preliminary signature, in parallel
        todo = []
        seen_pre = {}
        for r in results:
            for cr in r['crashes']:
                pre = crash_signature(cr)
                seen_pre[pre] = seen_pre.get(pre, 0) + 1
                san_reports['crash:%s:%s' % pre] = san_reports.get('crash:%s:%s' % pre, 0) + 1
                if seen_pre[pre] <= 2:
                    todo.append(cr)

        def confirm(cr):
            return cr, single_case(exe, stage, seed, tier, cr['index'], outdir, timeout=stage.get('case_timeout', 60),
                                   hexbytes=cr.get('hex') if stage.get('fuzz') else None)
        with ThreadPoolExecutor(8) as ex:
            confirmed = list(ex.map(confirm, todo))
        for cr, (rc, evs, err) in confirmed:
            idx = cr['index']
            desc, tags = None, []
            for e in evs:
                if e.get('t') == 'case':
                    desc, tags = e.get('case'), e.get('tags', [])
            if rc == 0:
                if cr.get('kind') == 'hang' or cr.get('rc') == 97:
                    # the no-progress watchdog fired in the shard (loaded machine, slow case under valgrind), the
                    # same case then ran to completion on its own and its oracles held: covered, recorded as a note
                    watchdog_notes.append('case %d of %s/%s/%s tripped the %s s no-progress watchdog in its shard and passed when re-run alone'
                                          % (idx, stage['harness'], stage.get('mode', ''), stage['variant'], 20))
                    if any(e.get('t') == 'fail' for e in evs):
                        inconclusive.append('case %d: watchdog in the shard, oracle failure when re-run alone' % idx)
                    continue
                inconclusive.append('crash at case %d (%s) did not reproduce in isolation' % (idx, cr.get('kind')))
                continue
            cr2 = dict(cr)
            cr2['stderr'] = err[-8000:]
            kind, func = crash_signature(cr2)
            if not kind.startswith('asan') and not kind.startswith('tsan'):
                kind2, func2 = crash_signature(cr)
                if kind2.startswith('asan'):
                    kind, func = kind2, func2
            if cr.get('kind') == 'hang' or rc == 97:
                kind = 'hang'
            chk = 'crash:%s:%s' % (kind, func)
            k = match_known(prop, chk, tags, known)
            if k:
                known_seen.setdefault(k['id'], dict(k=k, n=0))['n'] += 1
                continue
            sig = chk + '|' + ','.join(sorted(tags))
            if sig not in violations:
                violations[sig] = dict(property=prop, harness=stage['harness'], variant=stage['variant'],
                                       mode=stage.get('mode', ''), seed=seed, tier=tier, index=idx, check=chk,
                                       tags=tags, case=desc, observed=err[-3000:], expected='no crash', count=0)
                if stage.get('fuzz'):
                    violations[sig]['hex'] = cr.get('hex', '')
            violations[sig]['count'] += 1
        evaluations += st_eval
        stage_info.append(dict(harness=stage['harness'], variant=stage['variant'], mode=stage.get('mode', ''),
                               cases=n, evaluations=st_eval, shards=len(ranges), wall_s=round(time.time() - t0, 2)))
        if st_eval == 0 and not any(r['crashes'] for r in results):
            inconclusive.append('stage %s/%s produced no evaluations' % (stage['harness'], stage.get('mode', '')))
        for need in stage.get('need', []):
            if counters.get(need, 0) <= 0:
                inconclusive.append('monitor bucket "%s" observed nothing' % need)

    # verdict
    lines = []
    for kid, ks in sorted(known_seen.items()):
        lines.append('KNOWN-FINDING: property=%s %s (%s; seen %d times this run)' % (prop, ks['k'].get('what', ''), kid, ks['n']))
    nviol = 0
    for sig, v in sorted(violations.items()):
        h = sha(prop, sig)[:12]
        rp = os.path.join(REPLAY, '%s-%s.json' % (prop, h))
        json.dump(v, open(rp, 'w'), indent=1, default=str)
        lines.append('VIOLATION property=%s replay=%s' % (prop, rp))
        log('  violation %s x%d: case=%s observed=%s expected=%s' % (
            sig, v['count'], str(v['case'])[:300], str(v['observed'])[:300], str(v['expected'])[:300]))
        nviol += 1
    wall = time.time() - t_start
    ev = dict(property_id=prop, tier=tier, seed=seed, level='exploration',
              coverage=dict(evaluations=int(evaluations), distinct_nontrivial=len(distinct),
                            rule=spec.get('rule', ''), samples=samples, buckets=counters, stages=stage_info,
                            exhaustive=bool(spec.get('exhaustive', {}).get(tier, False)),
                            sanitizer_reports=san_reports, ubsan_observations=ubsan,
                            known_findings_seen={k: v['n'] for k, v in known_seen.items()},
                            watchdog_retries=watchdog_notes,
                            inconclusive=inconclusive),
              assumptions=spec.get('assumptions', []), wall_s=round(wall, 2), violations=nviol)
    json.dump(ev, open(os.path.join(EVID, prop + '.json'), 'w'), indent=1, default=str)
    shutil.rmtree(outdir, ignore_errors=True)
    for l in lines:
        print(l)
    summary = '%s %s seed=%d: evaluations=%d distinct=%d violations=%d known=%d inconclusive=%d wall=%.1fs' % (
        prop, tier, seed, evaluations, len(distinct), nviol, len(known_seen), len(inconclusive), wall)
    print(summary)
    for k in sorted(counters):
        log('   %-40s %d' % (k, counters[k]))
    if nviol:
        return 1
    if inconclusive:
        for i in inconclusive:
            print('INCONCLUSIVE: ' + i)
        return 2
    return 0


def replay(path):
    v = json.load(open(path))
    spec = PROPS[v['property']]
    cand = [s for s in spec['stages'] if s['harness'] == v['harness'] and s.get('mode', '') == v.get('mode', '')]
    stage = ([s for s in cand if s['variant'] == v.get('variant')] or cand)[0]
    exe = build_harness(stage['harness'], stage['variant'], stage.get('ldextra'))
    outdir = os.path.join(BUILD, 'runs', 'replay.%d' % os.getpid())
    os.makedirs(outdir, exist_ok=True)
    rc, evs, err = single_case(exe, stage, v['seed'], v['tier'], v['index'], outdir, timeout=120, hexbytes=v.get('hex'))
    for e in evs:
        print(json.dumps(e))
    print(err[-6000:])
    shutil.rmtree(outdir, ignore_errors=True)
    bad = rc != 0 or any(e.get('t') == 'fail' for e in evs)
    print('replay: %s' % ('still failing' if bad else 'passes now'))
    return 1 if bad else 0


def setup():
    t0 = time.time()
    todo = set()
    for prop, spec in PROPS.items():
        for st in spec['stages']:
            todo.add((st['harness'], st['variant'], tuple(st.get('ldextra') or ())))
    for v in sorted(set(t[1] for t in todo)):
        build_lib(v)
    with ThreadPoolExecutor(8) as ex:
        list(ex.map(lambda t: build_harness(t[0], t[1], list(t[2]) or None), sorted(todo)))
    print('setup done in %.1fs (%d harness builds)' % (time.time() - t0, len(todo)))
    return 0


def main():
    a = sys.argv[1:]
    if not a:
        print(__doc__)
        return 2
    if a[0] == 'setup':
        return setup()
    if a[0] == 'list':
        for p in PROPS:
            print(p, [(s['harness'], s.get('mode', ''), s['variant']) for s in PROPS[p]['stages']])
        return 0
    if a[0] == 'check':
        prop = a[1]
        tier = os.environ.get('VERIF_TIER', 'quick')
        if '--tier' in a:
            tier = a[a.index('--tier') + 1]
        seed = int(os.environ.get('VERIF_SEED', '1') or 1)
        return check(prop, tier, seed)
    if a[0] == 'replay':
        return replay(a[1])
    print(__doc__)
    return 2


if __name__ == '__main__':
    try:
        sys.exit(main())
    except SystemExit:
        raise
    except Exception as e:  # harness failure
        import traceback
        traceback.print_exc()
        sys.exit(2)
